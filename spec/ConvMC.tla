------------------------------- MODULE ConvMC -------------------------------
(* Leg (A) of C17: exhaustive small-scope exploration of the two reference interpreters (MusRef, XmiRef).
   TLC builds EVERY score of at most MaxLen events over a small alphabet that contains every event type (one state per
   score prefix; Next appends one event) and checks, for each of them, the internal consistency of the reference the
   trace monitors rely on:
     MUS  channel map injective, percussion -> 9, melodic never 9; one MIDI event per score event, in score order, ticks =
          running sum of the delays; remembered volume = volume byte of the latest earlier note of the channel (independent
          formulation); data bytes in range; tolerated artefacts exactly one per used channel; the byte layout decodes
          back to the score (format read in both directions); nominal times monotone.
     XMI  every note-on paired with exactly one synthesized note-off at tick + duration on the same channel/key; item
          count; nothing sounding after the end of a well-formed sequence; schedule strictly increasing; the EVNT byte
          layout decodes back to the sequence; IFF chunk lengths consistent.
   The same alphabets are replayed on the real library by lib/gen_conv.py (mus_exhaustive / xmi_exhaustive).            *)
EXTENDS MusRef, XmiRef
CONSTANTS Fmt, MaxLen
VARIABLES sc, bad
vars == <<sc, bad>>

\* ---------------------------------------------------------------- MUS
MusChans == <<3, 0, 15>>
MusShapes(ch, dl) ==
  LET n == IF ch = 15 THEN 40 ELSE 60 IN
  << [k |-> "rel", ch |-> ch, n |-> n, dl |-> dl], [k |-> "play", ch |-> ch, n |-> n, v |-> 100, dl |-> dl],
     [k |-> "play", ch |-> ch, n |-> n, v |-> -1, dl |-> dl], [k |-> "pitch", ch |-> ch, v |-> 129, dl |-> dl],
     [k |-> "sys", ch |-> ch, c |-> 12, dl |-> dl], [k |-> "ctl", ch |-> ch, c |-> 0, v |-> 7, dl |-> dl],
     [k |-> "ctl", ch |-> ch, c |-> 3, v |-> 90, dl |-> dl] >>
MusAlphabet == UNION { SeqToSet(MusShapes(MusChans[i], dl)) : i \in DOMAIN MusChans, dl \in {0, 200} }
MusScore(s) == Append(s, [k |-> "end", ch |-> 0, dl |-> 0])

MusBad(s) ==
  LET score == MusScore(s)
      m == ChanMap(score)
      its == MusItems(score)
      ex == MusExtras(score)
      used == { score[i].ch : i \in DOMAIN score }
      nonEnd == { i \in DOMAIN score : score[i].k # "end" }
      bytes == ScoreBytes(score)
  IN (IF /\ \A a, b \in used : a # b => m[a] # m[b]
         /\ \A a \in used : m[a] \in 0..15 /\ (m[a] = 9 <=> a = 15)
         /\ 15 \in DOMAIN m /\ m[15] = 9
      THEN {} ELSE {"map-injective"}) \cup
     (IF /\ Len(its) = Cardinality(nonEnd)
         /\ \A i \in DOMAIN its : its[i].tick = TickAt(score, its[i].src) /\ its[i].key[2] = m[score[its[i].src].ch]
         /\ \A i \in 1..(Len(its) - 1) : its[i].src < its[i + 1].src /\ its[i].tick <= its[i + 1].tick
      THEN {} ELSE {"one-event-per-event"}) \cup
     (IF \A i \in DOMAIN its : score[its[i].src].k = "play" => its[i].key[3][2] = VolumeAt(score, its[i].src)
      THEN {} ELSE {"volume-memory"}) \cup
     (IF WellFormed(score) => \A i \in DOMAIN its : \A j \in DOMAIN its[i].key[3] : its[i].key[3][j] \in 0..127
      THEN {} ELSE {"ranges"}) \cup
     (IF \A i \in DOMAIN its : score[its[i].src].k = "pitch" => its[i].key[3][1] + 128 * its[i].key[3][2] = 64 * score[its[i].src].v
      THEN {} ELSE {"pitch-scale"}) \cup
     (IF /\ Len(ex) = Cardinality(used \ {15}) + 1
         /\ \A c \in used \ {15} : Cardinality({ i \in DOMAIN ex : ex[i].key[2] = m[c] }) = 1
         /\ \A i \in DOMAIN ex : ex[i].tick <= EndTick(score)
      THEN {} ELSE {"extras"}) \cup
     (IF DecScore(bytes, 1, <<>>) = [i \in DOMAIN score |-> Plain(score[i])] THEN {} ELSE {"byte-layout"}) \cup
     (IF \A i \in 1..(Len(its) - 1) : MusTickUs(its[i].tick) <= MusTickUs(its[i + 1].tick) THEN {} ELSE {"time-monotone"})

\* the full channel range (needs 16 events, beyond MaxLen): all permutations-by-stride of the 16 channels, checked once
WideBad ==
  LET wide(st) == [i \in 1..16 |-> [k |-> "rel", ch |-> (i * st) % 16, n |-> 60, dl |-> 1]] \o << [k |-> "end", ch |-> 0, dl |-> 0] >>
      ok(score) == LET m == ChanMap(score) IN
                   /\ \A a, b \in 0..15 : a # b => m[a] # m[b]
                   /\ \A a \in 0..15 : m[a] \in 0..15 /\ (m[a] = 9 <=> a = 15)
                   /\ Len(MusExtras(score)) = 16
  IN IF \A st \in {1, 3, 5, 7, 9, 11, 13, 15} : ok(wide(st)) THEN {} ELSE {"map-wide"}

\* ---------------------------------------------------------------- XMI
XmiShapes(ch, dt) ==
  << <<dt, [k |-> "on", ch |-> ch, n |-> 60, v |-> 100, dur |-> 1]>>, <<dt, [k |-> "on", ch |-> ch, n |-> 62, v |-> 90, dur |-> 130]>>,
     <<dt, [k |-> "cc", ch |-> ch, n |-> 7, v |-> 90]>>, <<dt, [k |-> "pc", ch |-> ch, p |-> 5]>>, <<dt, [k |-> "bend", ch |-> ch, v |-> 8193]>> >>
XmiAlphabet == UNION { SeqToSet(XmiShapes(ch, dt)) : ch \in {0, 9}, dt \in {0, 5, 200} }
XmiSong(s) == [ev |-> << <<0, [k |-> "tempo", us |-> 500000]>> >> \o s, eot |-> 130]

RECURSIVE SortByTick(_)
SortByTick(S) == IF S = {} THEN <<>> ELSE LET m == CHOOSE x \in S : \A y \in S : x <= y IN <<m>> \o SortByTick(S \ {m})
XmiBad(s) ==
  LET sg == XmiSong(s)
      its == XmiItems(sg)
      ons == { i \in DOMAIN its : its[i].key[1] = 9 }
      offs == { i \in DOMAIN its : its[i].syn }
      sched == SortByTick({ its[i].tick : i \in DOMAIN its })
      ev == EvntBytes(sg)
      form == SongForm(sg)
      file == XmiBytes([songs |-> <<sg, sg>>])
      \* notes sounding after everything up to and including tick t (offs of a tick are applied before its ons)
      soundingAfterEnd == { i \in ons : ~\E j \in offs : its[j].src = its[i].src /\ its[j].tick <= XEndTick(sg) }
  IN (IF /\ Cardinality(ons) = Cardinality(offs)
         /\ \A i \in ons : Cardinality({ j \in offs : its[j].src = its[i].src }) = 1
         /\ \A j \in offs : \E i \in ons : /\ its[i].src = its[j].src /\ its[j].tick = its[i].tick + sg.ev[its[i].src][2].dur
                                           /\ its[j].key = <<8, its[i].key[2], <<its[i].key[3][1]>>>> /\ its[j].tick > its[i].tick
      THEN {} ELSE {"note-off-pairing"}) \cup
     (IF Len(its) = Cardinality({ i \in DOMAIN sg.ev : sg.ev[i][2].k # "tempo" }) + Cardinality(ons) THEN {} ELSE {"item-count"}) \cup
     (IF SongOK(sg) => soundingAfterEnd = {} THEN {} ELSE {"silent-at-end"}) \cup
     (IF /\ \A i \in 1..(Len(sched) - 1) : sched[i] < sched[i + 1] /\ XmiTickUs3(sched[i]) < XmiTickUs3(sched[i + 1])
         /\ \A i \in DOMAIN its : ~its[i].syn => its[i].tick = XTick(sg.ev, its[i].src)
      THEN {} ELSE {"schedule"}) \cup
     (IF DecEvnt(ev, 1, <<>>) = [ev |-> sg.ev, eot |-> sg.eot] THEN {} ELSE {"byte-layout"}) \cup
     (IF /\ Len(form) % 2 = 0 /\ SubSeq(form, 5, 8) = BE32(Len(form) - 8)
         /\ SubSeq(file, 1, 22) = XTag("FORM") \o BE32(14) \o XTag("XDIR") \o XTag("INFO") \o BE32(2) \o <<2, 0>>
         /\ SubSeq(file, 23, 34) = XTag("CAT ") \o BE32(4 + 2 * Len(form)) \o XTag("XMID") /\ Len(file) = 34 + 2 * Len(form)
      THEN {} ELSE {"iff-layout"})

\* ---------------------------------------------------------------- the player session (Fmt = "session")
(* every history of <= MaxLen selections / loads on one player: the fold of XmiRef!SessSelect / SessLoad / SessLoadUndefined
   (the state the trace monitors carry from file to file) against formulations over the WHOLE history:
     last-file   what is loaded, and the song count, depend on the LAST load of the history only
     in-range    the delivered song is always a song of the loaded file; the reading "the last request, answered by this
                 file" is always among the readings
     exact       a last request that is in range for every file loaded after it (and for the file loaded when it was made)
                 has exactly one reading: itself                                                                         *)
SessAlphabet ==
  { [a |-> "sel", k |-> k] : k \in 0..3 } \cup
  { [a |-> "load", kind |-> "xmi", n |-> n, ok |-> TRUE] : n \in 1..3 } \cup
  { [a |-> "load", kind |-> "xmi", n |-> 2, ok |-> FALSE], [a |-> "load", kind |-> "mus", n |-> 1, ok |-> TRUE],
    [a |-> "load", kind |-> "smf", n |-> 1, ok |-> TRUE], [a |-> "undef", m |-> 0], [a |-> "undef", m |-> 2] }
SessStep(S, x) == CASE x.a = "sel" -> SessSelect(S, x.k) [] x.a = "load" -> SessLoad(S, x.kind, x.n, x.ok) [] OTHER -> SessLoadUndefined(S, x.m)
RECURSIVE SessFold(_, _)
SessFold(h, i) == IF i = 0 THEN Sess0 ELSE SessStep(SessFold(h, i - 1), h[i])
SessBad(h) ==
  LET S == SessFold(h, Len(h))
      loads == { i \in DOMAIN h : h[i].a # "sel" }
      sels == { i \in DOMAIN h : h[i].a = "sel" }
      lastOf(I) == CHOOSE i \in I : \A j \in I : j <= i
      xmiAt(i) == h[i].a = "load" /\ h[i].kind = "xmi" /\ h[i].ok
      xmiNow == loads # {} /\ xmiAt(lastOf(loads))
      nNow == IF xmiNow THEN h[lastOf(loads)].n ELSE 0
      req == IF sels = {} THEN 0 ELSE h[lastOf(sels)].k
      since == IF sels = {} THEN 0 ELSE lastOf(sels)
      \* the ranges the last request has met: the file loaded when it was made and every file loaded after it
      before == { i \in loads : i < since }
      met == { i \in loads : i > since } \cup (IF before = {} THEN {} ELSE {lastOf(before)})
      fits(i) == CASE xmiAt(i) -> req < h[i].n [] h[i].a = "undef" -> h[i].m = 0 \/ req < h[i].m [] OTHER -> TRUE
  IN (IF SessXmi(S) = xmiNow /\ (xmiNow => S.n = nNow) /\ \A c \in 0..8 : SessCountOK(S, c) <=> (IF xmiNow THEN c = nNow ELSE c <= 1)
      THEN {} ELSE {"session-last-file"}) \cup
     (IF /\ SessSongs(S) # {} /\ SessSongs(S) \subseteq (IF xmiNow THEN 0..(nNow - 1) ELSE {0})
         /\ xmiNow => Clamp(req, 0, nNow - 1) \in SessSongs(S)
      THEN {} ELSE {"session-in-range"}) \cup
     (IF (xmiNow /\ \A i \in met : fits(i)) => SessSongs(S) = {req} THEN {} ELSE {"session-exact"})

\* ----------------------------------------------------------------
Alphabet == IF Fmt = "mus" THEN MusAlphabet ELSE IF Fmt = "session" THEN SessAlphabet ELSE XmiAlphabet
Judge(s) == IF Fmt = "mus" THEN MusBad(s) ELSE IF Fmt = "session" THEN SessBad(s) ELSE XmiBad(s)
Init == sc = <<>> /\ bad = Judge(<<>>) \cup (IF Fmt = "mus" THEN WideBad ELSE {})
Next == /\ Len(sc) < MaxLen
        /\ \E x \in Alphabet : sc' = Append(sc, x) /\ bad' = Judge(Append(sc, x))
Spec == Init /\ [][Next]_vars
NoBad == bad = {}
=============================================================================
