--------------------------------- MODULE Seq ---------------------------------
(* Implementation-shaped model of the SMF sequencer (src/midi_sequencer_impl.hpp):
   buildSmfTrackData (row grouping, lone End-of-Track rule), MidiTrackRow::sortEvents with its
   note-state rule, the load-time loop validation and loop-begin scan, processEvents with its
   `break`s, the global loop machine (caughtStart/caughtEnd/loopsLeft), tempo handling incl. the
   restore on jumps, and exact-step ticking.  Output: the delivered log in the format of the
   conformance harness, so that the monitors of SeqTrace judge model runs and real runs alike.

   Song shape as in SmfRef.  Times are microseconds; tempo us/quarter must be a multiple of div. *)
EXTENDS SmfRef

EotEv == [k |-> "eot"]
BeginEv == [k |-> "begin"]
\* flat event list of a track incl. the final End-of-Track: <<dt, e>>
Flat(tr) == tr.ev \o << <<tr.eot, EotEv>> >>

---------------------------------------------------------------------------
(* MidiTrackRow::sortEvents(noteStates); on = set of <<ch, n>> currently sounding in this track *)
IsOff(e) == e.k = "off" \/ (e.k = "on" /\ e.v = 0)
IsOn(e)  == e.k = "on" /\ e.v > 0
IsCtl(e) == e.k \in {"cc", "pc", "bend", "cat"}
IsMetaCls(e) == e.k \in {"marker", "loopstart", "cc111", "loopend", "begin"} \/ (e.k = "text" /\ e.ty = 9)   \* FF 09 (device switch) sorts with the markers
IsSysex(e) == e.k \in {"sysex", "sysex7"}
RECURSIVE MoveOffs(_, _, _, _, _)
\* scan noteOffs for note p of a note-on; returns [offs, moved, cnt]
MoveOffs(offs, j, p, wasOn, acc) ==
  IF j > Len(offs) THEN acc
  ELSE LET o == offs[j] IN
    IF <<o.ch, o.n>> = p
    THEN IF ~wasOn \/ acc.cnt # 0
         THEN MoveOffs(offs, j + 1, p, wasOn, [acc EXCEPT !.moved = Append(@, o), !.any = TRUE])
         ELSE MoveOffs(offs, j + 1, p, wasOn, [acc EXCEPT !.keep = Append(@, o), !.cnt = @ + 1])
    ELSE MoveOffs(offs, j + 1, p, wasOn, [acc EXCEPT !.keep = Append(@, o)])
RECURSIVE SortScan(_, _, _, _, _)
\* iterate anyOther (index i) as the C++ loop does (moved note-offs are appended and skipped)
SortScan(other, i, offs, on, mark) ==
  IF i > Len(other) THEN [other |-> other, offs |-> offs, mark |-> mark]
  ELSE LET e == other[i] IN
    IF IsOn(e)
    THEN LET p == <<e.ch, e.n>>
             r == MoveOffs(offs, 1, p, p \in on, [keep |-> <<>>, moved |-> <<>>, cnt |-> 0, any |-> FALSE])
             mark1 == IF r.any THEN mark \ {p} ELSE mark \cup {p}
         IN SortScan(other \o r.moved, i + 1, r.keep, on, mark1)
    ELSE SortScan(other, i + 1, offs, on, mark)
SortRow(events, on) ==
  LET sysex == SelectSeq(events, IsSysex)
      offs  == SelectSeq(events, IsOff)
      metas == SelectSeq(events, IsMetaCls)
      ctls  == SelectSeq(events, IsCtl)
      other == SelectSeq(events, LAMBDA e : ~IsSysex(e) /\ ~IsOff(e) /\ ~IsMetaCls(e) /\ ~IsCtl(e))
      r     == SortScan(other, 1, offs, on, {})
      on1   == (on \ { <<r.offs[j].ch, r.offs[j].n>> : j \in DOMAIN r.offs }) \cup r.mark
  IN [events |-> sysex \o r.offs \o metas \o ctls \o r.other, on |-> on1]

---------------------------------------------------------------------------
(* buildSmfTrackData: rows of one track.  row = [delay, abs, events] *)
RECURSIVE BuildRows(_, _, _, _, _, _)
BuildRows(F, i, rows, cur, abs, on) ==
  IF i > Len(F) THEN rows
  ELSE LET e == F[i][2]
           ev1 == Append(cur, e)
           nd == IF e.k = "eot" THEN 0 ELSE F[i + 1][1]
           \* End-of-Track alone in its row: drop the delay of the row before
           rows1 == IF e.k = "eot" /\ Len(ev1) = 1 /\ rows # <<>> THEN [rows EXCEPT ![Len(rows)].delay = 0] ELSE rows
       IN IF nd > 0 \/ e.k = "eot"
          THEN LET sr == SortRow(ev1, on) IN
               BuildRows(F, i + 1, Append(rows1, [delay |-> nd, abs |-> abs, events |-> sr.events]), <<>>, abs + nd, sr.on)
          ELSE BuildRows(F, i + 1, rows1, ev1, abs, on)
TrackRows(song, ti) ==
  LET F == Flat(song.tracks[ti])
      first == [delay |-> F[1][1], abs |-> 0, events |-> IF ti = 1 THEN <<BeginEv>> ELSE <<>>]
  IN BuildRows(F, 1, <<first>>, <<>>, F[1][1], {})

\* load-time loop analysis (ticks): invalid when duplicates / same row / end not after start
LoopTicks(song) ==
  LET marks == FlattenSeq([ti \in DOMAIN song.tracks |->
                 LET F == Flat(song.tracks[ti]) IN
                 SelectSeq([i \in DOMAIN F |-> [k |-> F[i][2].k, tick |-> TickOf(F, i), trk |-> ti, i |-> i]], LAMBDA m : m.k \in {"loopstart", "cc111", "loopend"})])
      ss == SelectSeq(marks, LAMBDA m : m.k \in {"loopstart", "cc111"})  es == SelectSeq(marks, LAMBDA m : m.k = "loopend")
      \* "loop event in this row": two loop markers of one track in the same row (same tick, no positive delta between)
      sameRow == \E a, b \in DOMAIN marks : a < b /\ marks[a].trk = marks[b].trk /\ marks[a].tick = marks[b].tick
      songTicks == CHOOSE m \in { TickOf(Flat(song.tracks[ti]), Len(Flat(song.tracks[ti]))) : ti \in DOMAIN song.tracks } :
                     \A ti \in DOMAIN song.tracks : TickOf(Flat(song.tracks[ti]), Len(Flat(song.tracks[ti]))) <= m
      sT == IF ss # <<>> THEN ss[1].tick ELSE 0
      eT == IF es # <<>> THEN es[1].tick ELSE IF ss # <<>> THEN songTicks ELSE 0
  IN [invalid |-> Len(ss) > 1 \/ Len(es) > 1 \/ sameRow \/ sT >= eT, st |-> sT, et |-> eT,
      endIsSong |-> es = <<>> /\ ss # <<>>]          \* a loop start without a loop end: the loop ends where the song does

---------------------------------------------------------------------------
(* playback state and processEvents() *)
UsTick(song, tempo) == tempo \div song.div
PPos0(rows) == [tr |-> [ti \in DOMAIN rows |-> [pos |-> 1, delay |-> 0, st |-> 0]], wait |-> 0, abs |-> 0]

\* song time of a row as buildTimeLine computes it: an End-of-Track alone in its row carries the time of the row before
\* (the delay in front of it was dropped)
RowTimeUs(song, trows, ri) ==
  IF ri > 1 /\ trows[ri].events = <<EotEv>> /\ trows[ri - 1].delay = 0 /\ trows[ri].abs > trows[ri - 1].abs
  THEN TimeOf(song, trows[ri - 1].abs) ELSE TimeOf(song, trows[ri].abs)
\* m_loopStartTime / m_loopEndTime: time of the last row (tracks in order) standing at the loop tick; -1 when unset
LoopTimeUs(song, rows, tick, inv) ==
  LET c == FlattenSeq([ti \in DOMAIN rows |-> SelectSeq([ri \in DOMAIN rows[ti] |-> [a |-> rows[ti][ri].abs, t |-> RowTimeUs(song, rows[ti], ri)]], LAMBDA x : x.a = tick)])
  IN IF inv \/ c = <<>> THEN -1 ELSE c[Len(c)].t

\* m_loopEndTime: the time of the row at the loop end tick - except for a loop without end point, whose end is the time of the
\* song's last event (the last row of the longest track may carry an earlier time: trailing silence is skipped; before that
\* repair a seek into the gap counted as "behind the loop end").  song.len = last event time + 1 s
LoopEndTimeUs(song, rows, lt) ==
  IF lt.invalid THEN -1 ELSE IF lt.endIsSong THEN song.len - 1000000 ELSE LoopTimeUs(song, rows, lt.et, FALSE)

(* the load-time scan of buildTimeLine() for the loop begin position: like processEvents, but a track found at its end
   does not stop the pass, nothing is delivered, and the position keeps wait = 0 *)
RECURSIVE ScanTracks(_, _, _, _, _)
ScanTracks(P, rows, ti, tempo, caught) ==
  IF ti > Len(rows) THEN [p |-> P, tempo |-> tempo, caught |-> caught]
  ELSE LET t == P.tr[ti] IN
    IF t.st >= 0 /\ t.delay <= 0
    THEN IF t.pos > Len(rows[ti]) THEN ScanTracks([P EXCEPT !.tr[ti].st = -1], rows, ti + 1, tempo, caught)
         ELSE LET evs == rows[ti][t.pos].events
                  ls == FirstIdx(evs, LAMBDA e : e.k \in {"loopstart", "cc111"})
                  seen == SelectSeq(SubSeq(evs, 1, IF ls = 0 THEN Len(evs) ELSE ls), LAMBDA e : e.k = "tempo")
                  P1 == [P EXCEPT !.tr[ti].delay = @ + rows[ti][t.pos].delay, !.tr[ti].pos = @ + 1]
              IN ScanTracks(P1, rows, ti + 1, IF seen = <<>> THEN tempo ELSE seen[Len(seen)].us, caught \/ ls # 0)
    ELSE ScanTracks(P, rows, ti + 1, tempo, caught)
RECURSIVE ScanLoop(_, _, _, _, _)
ScanLoop(P, tempo, rows, lsTime, fuel) ==
  LET r == ScanTracks(P, rows, 1, tempo, FALSE)
      act == { ti \in DOMAIN rows : r.p.tr[ti].st >= 0 }
      sd == IF act = {} THEN 0 ELSE CHOOSE d \in { r.p.tr[ti].delay : ti \in act } : \A ti \in act : d <= r.p.tr[ti].delay
      P1 == [r.p EXCEPT !.tr = [ti \in DOMAIN rows |-> [r.p.tr[ti] EXCEPT !.delay = @ - sd]]]
  IN IF r.caught THEN [lbp |-> [P EXCEPT !.abs = lsTime], lbtempo |-> tempo]
     ELSE IF act = {} \/ fuel = 0 THEN [lbp |-> PPos0(rows), lbtempo |-> DefaultTempoUs]
     ELSE ScanLoop(P1, r.tempo, rows, lsTime, fuel - 1)

Play0(song, rows, loopEn, loopN) ==
  LET n == IF loopN >= 1 THEN loopN - 1 ELSE loopN
      lt == LoopTicks(song)
      sc == IF lt.invalid THEN [lbp |-> PPos0(rows), lbtempo |-> DefaultTempoUs]
            ELSE ScanLoop(PPos0(rows), DefaultTempoUs, rows, LoopTimeUs(song, rows, lt.st, FALSE), 200)
  IN
  [p |-> PPos0(rows), tempo |-> DefaultTempoUs, atEnd |-> FALSE, cStart |-> FALSE, cEnd |-> FALSE,
   left |-> n, count |-> n, lbp |-> sc.lbp, lbtempo |-> sc.lbtempo,
   log |-> <<>>, loopEn |-> loopEn, inv |-> lt.invalid, seek |-> FALSE, broken |-> FALSE]

Entry(e, t) == LET im == IF e.k = "begin" THEN <<255, 1, 0, <<>>>> ELSE IF e.k = "eot" THEN <<255, 47, 0, <<>>>> ELSE Img(e) IN
               <<"e", t, im[1], im[2], im[3], im[4], 0>>
\* handle the events of one row of track ti from index i; returns [S, jump]
RECURSIVE RowEvents(_, _, _, _, _, _)
RowEvents(S, song, rows, ti, i, acc) ==
  LET row == rows[ti][S.p.tr[ti].pos] IN
  IF i > Len(row.events) THEN [s |-> S, jump |-> FALSE, starts |-> acc]
  ELSE IF S.seek /\ IsOn(row.events[i]) THEN RowEvents(S, song, rows, ti, i + 1, acc)    \* note-ons are not even shown to the hook while seeking
  ELSE LET e == row.events[i]
           S1 == [S EXCEPT !.log = Append(@, Entry(e, S.p.abs))]
           S2 == CASE e.k = "eot"   -> [S1 EXCEPT !.p.tr[ti].st = -1]
                   [] e.k = "tempo" -> [S1 EXCEPT !.tempo = e.us]
                   [] e.k \in {"loopstart", "cc111"} /\ S.loopEn /\ ~S.inv -> [S1 EXCEPT !.log = Append(@, <<"h", S.p.abs, 1, 0>>)]
                   [] e.k = "loopend" /\ S.loopEn /\ ~S.inv -> [S1 EXCEPT !.cEnd = TRUE]
                   [] OTHER -> S1
           st1 == IF e.k \in {"loopstart", "cc111"} /\ S.loopEn /\ ~S.inv THEN acc + 1 ELSE acc
       IN IF S2.cEnd THEN [s |-> S2, jump |-> TRUE, starts |-> st1]
          ELSE RowEvents(S2, song, rows, ti, i + 1, st1)
RECURSIVE TrackLoop(_, _, _, _, _)
\* the `for(tk...)` loop of processEvents: stops at the first track found at its end, and after a loop end
TrackLoop(S, song, rows, ti, starts) ==
  IF ti > Len(rows) THEN [s |-> S, starts |-> starts]
  ELSE LET t == S.p.tr[ti] IN
    IF t.st >= 0 /\ t.delay <= 0
    THEN IF t.pos > Len(rows[ti]) THEN [s |-> [S EXCEPT !.p.tr[ti].st = -1], starts |-> starts]      \* break
         ELSE LET r  == RowEvents(S, song, rows, ti, 1, starts)
                  S1 == r.s
                  S2 == IF S1.p.tr[ti].st >= 0
                        THEN [S1 EXCEPT !.p.tr[ti].delay = @ + rows[ti][t.pos].delay, !.p.tr[ti].pos = @ + 1] ELSE S1
              IN IF r.jump THEN [s |-> S2, starts |-> r.starts] ELSE TrackLoop(S2, song, rows, ti + 1, r.starts)
    ELSE TrackLoop(S, song, rows, ti + 1, starts)

ProcessEvents(S, song, rows) ==
  LET rowBegin == S.p  rowTempo == S.tempo
      r  == TrackLoop([S EXCEPT !.cEnd = FALSE], song, rows, 1, 0)
      S1 == r.s
      act == { ti \in DOMAIN rows : S1.p.tr[ti].st >= 0 }
      found == act # {}
      sd == IF found THEN (CHOOSE d \in { S1.p.tr[ti].delay : ti \in act } : \A ti \in act : d <= S1.p.tr[ti].delay) ELSE 0
      S2 == [S1 EXCEPT !.p.tr = [ti \in DOMAIN rows |-> [S1.p.tr[ti] EXCEPT !.delay = @ - sd]],
                       !.p.wait = @ + sd * UsTick(song, S1.tempo)]
      S3 == IF r.starts > 0 /\ S2.lbp.abs <= 0 THEN [S2 EXCEPT !.lbp = rowBegin, !.lbtempo = rowTempo] ELSE S2
  IN IF ~found \/ S3.cEnd
     THEN LET S4 == [S3 EXCEPT !.log = Append(@, <<"h", S3.p.abs, 2, 0>>), !.cEnd = FALSE] IN
          IF ~S4.loopEn \/ (~found /\ S4.count >= 0 /\ S4.left < 1)
          THEN [S4 EXCEPT !.atEnd = TRUE, !.p.wait = @ + 1000000]
          ELSE IF S4.broken       \* a seek at/after the loop end: the next jump goes to the very beginning and is not counted
               THEN [S4 EXCEPT !.p = PPos0(rows), !.tempo = DefaultTempoUs, !.broken = FALSE]
          ELSE IF S4.count < 0 \/ S4.left >= 1
               THEN [S4 EXCEPT !.p = S4.lbp, !.tempo = S4.lbtempo, !.left = IF S4.count >= 1 THEN @ - 1 ELSE @]
               ELSE S4
     ELSE S3

\* exact stepping: Tick(wait) until the end; fuel bounds the number of processEvents calls
RECURSIVE Drain(_, _, _, _)
Drain(S, song, rows, fuel) ==
  IF S.atEnd \/ fuel = 0 \/ S.p.wait > 0 THEN [s |-> S, fuel |-> fuel]
  ELSE Drain(ProcessEvents(S, song, rows), song, rows, fuel - 1)
RECURSIVE Run(_, _, _, _, _)
Run(S, song, rows, fuel, calls) ==
  IF fuel = 0 \/ Len(calls) > 60 THEN [calls |-> calls, atend |-> 0, trunc |-> 1]
  ELSE LET step == S.p.wait
           S0 == [S EXCEPT !.p.wait = 0, !.p.abs = @ + step, !.log = <<>>]
           d  == Drain(S0, song, rows, fuel)
           c  == << step, d.s.p.abs, d.s.p.wait, IF d.s.atEnd THEN 1 ELSE 0, d.s.log, S.p.abs >>
       IN IF d.s.atEnd THEN [calls |-> Append(calls, c), atend |-> 1, trunc |-> 0]
          ELSE Run(d.s, song, rows, d.fuel, Append(calls, c))
Rows(song) == [ti \in DOMAIN song.tracks |-> TrackRows(song, ti)]
PlayModel(song, loopEn, loopN) ==
  LET rows == Rows(song)
      r == Run(Play0(song, rows, loopEn, loopN), song, rows, 400, <<>>)
  IN [e |-> "PlayTicks", steps |-> <<>>, calls |-> r.calls, atend |-> r.atend, trunc |-> r.trunc]

---------------------------------------------------------------------------
(* seek(seconds, granularity): rewind, loops off, ONE step of the full distance, then processEvents(isSeek) while the
   wait is within half a granule; a seek that reaches the end, or beyond the song length, rewinds.
   gh = half the granularity in whole microseconds (the waits are whole microseconds).  song.len = m_fullSongTimeLength. *)
\* m_loop.temporaryBroken: the target lies at or behind the loop end point; without one (time -1) the loop ends with the song and
\* no target is behind it (before that repair every seek in such a song was "behind": one pass too many followed)
Behind(target, le) == le >= 0 /\ target >= le
RECURSIVE DrainSeek(_, _, _, _, _)
DrainSeek(S, song, rows, gh, fuel) ==
  IF S.atEnd \/ fuel = 0 \/ S.p.wait > gh THEN S
  ELSE DrainSeek(ProcessEvents(S, song, rows), song, rows, gh, fuel - 1)
SeekModel(song, loopEn, loopN, target, gh) ==
  LET rows == Rows(song)
      base == Play0(song, rows, loopEn, loopN)
      le == LoopEndTimeUs(song, rows, LoopTicks(song))
      S0 == [base EXCEPT !.loopEn = FALSE, !.seek = TRUE, !.broken = Behind(target, le), !.p.wait = -target, !.p.abs = target]
      d  == DrainSeek(S0, song, rows, gh, 400)
  IN IF target < 0 THEN [s |-> base, log |-> <<>>, tell |-> -1, rows |-> rows]            \* refused: nothing moves (tell -1 = unchanged)
     ELSE IF target > song.len THEN [s |-> base, log |-> <<>>, tell |-> 0, rows |-> rows]
     ELSE IF target = 0 THEN [s |-> [base EXCEPT !.broken = Behind(0, le)], log |-> <<>>, tell |-> 0, rows |-> rows]
     ELSE IF d.atEnd THEN [s |-> base, log |-> d.log, tell |-> 0, rows |-> rows]
     ELSE [s |-> [d EXCEPT !.loopEn = loopEn, !.seek = FALSE, !.p.wait = Max(0, @), !.log = <<>>], log |-> d.log, tell |-> target, rows |-> rows]
\* playback (exact stepping) continued from the state a seek left
PlayAfterSeekModel(song, loopEn, loopN, target, gh) ==
  LET m == SeekModel(song, loopEn, loopN, target, gh)
      r == Run(m.s, song, m.rows, 400, <<>>)
  IN [e |-> "PlayTicks", steps |-> <<>>, calls |-> r.calls, atend |-> r.atend, trunc |-> r.trunc]
=============================================================================
