SPECIFICATION MCSpec
CONSTANTS
  Fmt = "mus"
  MaxLen = 3
  MaxLen2 = 2
  Tempi = {0}
INVARIANT NoBad
CHECK_DEADLOCK FALSE
