------------------------------- MODULE Settings -------------------------------
(* C18.  The configuration store of one OPN2_MIDIPlayer and its reset paths, written after
   src/opnmidi.cpp (setters), opnmidi_midiplay.cpp (applySetup / partialReset / resetMIDI),
   opnmidi_load.cpp (LoadBank / LoadMIDI_pre / LoadMIDI_post) and OPN2::reset, plus the property
   predicates of C18.

   Functional style.  A state S is ONE record whose fields carry the same names as the
   observation recorded by harness/drive_settings.cpp, so a recorded observation *is* a model
   state (stateless refinement) and the predicates run unchanged on model states (SettingsMC)
   and on recorded states (SettingsTrace):

     public getters      nc nco gvm al glfo glff gct arp emun nt
     stored overrides    emu pcm vm lfo lff ct smod frb          (m_setup)
     live synth values   vs smodS pcmS span mm                   (class OPN2)
     bank-wide setup     bvm blfo blff bct, bd = digest of the loaded bank
     others              dev (SysEx device id), hn hd hls hle (player hook slots), ir idb ils ile
                         (sequencer-interface hook slots; 0 none, 1 the user's, 2 someone else's),
                         loop ln ho tp sg solo td cd  (sequencer), fmt (the sequencer's file format, getFormat())

   Step(S, ev, fix) is the call; fix is a set of repair switches: {} = the code as it stands,
     "numchips"  opn2_setNumChips validates before it stores
     "trackopt"  opn2_setTrackOptions validates the option bits before it acts
     "dumper"    leaving the VGM dumper restores the chip count and the user's loop-hooks-only value
     "rsxxlock"  a rejected music file leaves the set-up lock of a loaded EA-MUS song as it was

   The set-up lock (Synth::setupLocked(): music mode mm = RSXX after an EA-MUS song was loaded; the IMF / CMF
   modes are never entered, LoadMIDI_post rejects those files).  LoadMIDI_post forces the Generic volume scale
   and two chips and re-creates the chips.  While locked, opn2_setNumChips / opn2_setVolumeRangeModel /
   opn2_setRunAtPcmRate store the request in m_setup and touch nothing else.  Every applySetup() ends the lock
   (it sets the music mode to MIDI first) and applies the stored requests: opn2_openBankData, opn2_setChipType,
   and opn2_openData -- LoadMIDI_pre runs it BEFORE the file is parsed, so a rejected file ends the lock as well
   although the EA-MUS song stays loaded.  partialReset (opn2_reset, opn2_switchEmulator) keeps the lock and
   the two chips but copies the stored PCM-rate request into the synth.                                        *)
EXTENDS Common, TLC

Bool(c) == IF c THEN 1 ELSE 0
Dumper == 7                       \* OPNMIDI_VGM_DUMPER
EmuNames == <<"MAME YM2612", "Nuked OPN2", "GENS/GS II OPN2", "YMFM OPN2", "Neko Project II Kai OPNA",
              "MAME YM2608", "YMFM OPNA", "VGM Writer", "Nuked OPN2">>
EmuAvail(v) == v \in 0..8
EmuName(v) == IF v \in 0..8 THEN EmuNames[v + 1] ELSE "?"

(* fixed inputs, mirrored by bankImage() / songImage() of the harness *)
\* (the WOPN format does not carry a volume model: a loaded bank always says Generic)
BankHdr(b) == CASE b = 1 -> [vs |-> 0, lfo |-> 1, lff |-> 3, ct |-> 1]
                [] b = 2 -> [vs |-> 0, lfo |-> 0, lff |-> 5, ct |-> 0]
                [] OTHER -> [vs |-> 0, lfo |-> 1, lff |-> 7, ct |-> 0]
BankDigest(b) == << <<32768, 20 + b>>, <<0, 10 + b>> >>
\* trB = -1: no note B; marks: loopStart / loopEnd markers and the device-switch meta event; rsxx: EA-MUS file;
\* mm / fmt: the music mode of the synth and the file format of the sequencer that THIS file dictates, whatever was loaded
\* (or refused) before.  Song kinds: 1, 2 Standard MIDI files; 3 EA-MUS (locks the set-up); 4 GMF and 5 DMX MUS (both are
\* turned into SMF track data by the loader: plain MIDI mode, no lock); 6 AIL XMIDI (XMIDI mode, no lock; one sequence, the
\* loader clamps the selected song number into the file); 7 id-Software IMF (an OPL register dump: the sniffing takes it, the
\* loader parses it, LoadMIDI_post refuses it -- only ever opened as the refused file, bad = 5, like the CMF image).
FmtMIDI == 0  FmtCMF == 1  FmtIMF == 2  FmtRSXX == 3  FmtXMIDI == 4      \* BW_MidiSequencer::FileFormat
ModeRSXX == 4                     \* Synth::MODE_RSXX (MODE_MIDI = 0, MODE_XMIDI = 1, MODE_IMF = 2, MODE_CMF = 3)
ModeXMIDI == 1
Song(s) == CASE s = 1 -> [nt |-> 2, trA |-> 0, trB |-> 1, marks |-> TRUE, rsxx |-> FALSE, mm |-> 0, fmt |-> FmtMIDI]
             [] s = 3 -> [nt |-> 1, trA |-> 0, trB |-> -1, marks |-> FALSE, rsxx |-> TRUE, mm |-> ModeRSXX, fmt |-> FmtRSXX]
             [] s \in {4, 5} -> [nt |-> 1, trA |-> 0, trB |-> -1, marks |-> FALSE, rsxx |-> FALSE, mm |-> 0, fmt |-> FmtMIDI]
             [] s = 6 -> [nt |-> 1, trA |-> 0, trB |-> -1, marks |-> FALSE, rsxx |-> FALSE, mm |-> ModeXMIDI, fmt |-> FmtXMIDI]
             [] OTHER -> [nt |-> 1, trA |-> 0, trB |-> 0, marks |-> TRUE, rsxx |-> FALSE, mm |-> 0, fmt |-> FmtMIDI]
\* a well-formed file of a format the player refuses (bad = 5): the Creative CMF image, or the IMF image when s = 7
RefusedFmt(ev) == IF ev.s = 7 THEN FmtIMF ELSE FmtCMF
Locked(S) == S.mm \in {2, 3, 4}   \* OPN2::setupLocked()

S0 == [nc |-> 2, nco |-> 2, gvm |-> 1, al |-> -1, glfo |-> 0, glff |-> 0, gct |-> 0, arp |-> 0, emun |-> EmuName(0), nt |-> 0,
       emu |-> 0, pcm |-> 0, vm |-> 0, lfo |-> -1, lff |-> -1, ct |-> -1, smod |-> 0, frb |-> 0,
       vs |-> 0, smodS |-> 0, pcmS |-> 0, span |-> 0, mm |-> 0, bvm |-> 0, blfo |-> 0, blff |-> 0, bct |-> 0, bd |-> <<>>,
       dev |-> 0, hn |-> 0, hd |-> 0, hls |-> 0, hle |-> 0, ir |-> 0, idb |-> 0, ils |-> 0, ile |-> 0,
       loop |-> 0, ln |-> -1, ho |-> 0, tp |-> 1000, sg |-> 0, solo |-> -1, td |-> <<>>, cd |-> 0, fmt |-> 0]
ModelF == DOMAIN S0

\* derived getters; the channel mask is uninitialised memory until the first song is loaded
Derive(S) == [S EXCEPT !.gvm = IF S.vs \in 0..4 THEN S.vs + 1 ELSE 1,
                       !.emun = IF S.nco >= 1 THEN EmuName(S.emu) ELSE "Unknown",
                       !.cd = IF S.nt = 0 THEN 0 ELSE @]

---------------------------------------------------------------------------
(* the reset paths *)
\* hook slots of the sequencer interface after the chips were re-created (OPNMIDI_MIDI2VGM build): the VGM
\* dumper takes the loop hooks and forces "loop hooks only".  left = this reset leaves the dumper; with the
\* repair "dumper" the user's own loop-hooks-only value comes back (the model does not know it: -1 = any).
AfterReset(S, left, fix) ==
  IF S.emu = Dumper /\ S.nco >= 1 THEN [S EXCEPT !.ils = 2, !.ile = 2, !.ho = 1]
  ELSE [S EXCEPT !.ils = S.hls, !.ile = S.hle, !.ho = IF left /\ "dumper" \in fix THEN -1 ELSE @]
\* OPN2::reset(emulator, rate, family); m_numChips is unsigned
SynthReset(S, fam, left, fix) ==
  AfterReset([S EXCEPT !.nco = IF S.emu = Dumper /\ (@ > 2 \/ @ < 0) THEN 2 ELSE @, !.gct = fam], left, fix)
CrashChips(n) == n < 0 \/ n > 100000      \* vector::resize(2^31 .. 2^32 chips): bad_alloc / memory cap
\* OPNMIDIplay::applySetup()
ApplySetup(S, fix) ==
  LET vs1 == IF S.vm \in 1..5 THEN S.vm - 1 ELSE S.vs
      S1 == [S EXCEPT !.mm = 0, !.pcmS = S.pcm, !.smodS = Bool(S.smod # 0),
                      !.vs = IF S.vm = 0 THEN S.bvm ELSE vs1,
                      !.nco = S.nc,
                      !.glfo = IF S.lfo < 0 THEN S.blfo ELSE Bool(S.lfo # 0),
                      !.glff = IF S.lff < 0 THEN S.blff ELSE S.lff % 256]
  IN SynthReset(S1, IF S.ct < 0 THEN S.bct ELSE S.ct, FALSE, fix)
\* OPNMIDIplay::partialReset()
PartialReset(S, left, fix) == SynthReset([S EXCEPT !.pcmS = S.pcm], S.gct, left, fix)

Ok(S) == [s |-> S, r |-> 0]
Rej(S) == [s |-> S, r |-> -1]
Crash(S) == [s |-> S, r |-> -99]
Apply(S, fix) == IF CrashChips(S.nc) /\ S.emu # Dumper THEN Crash(S) ELSE Ok(ApplySetup(S, fix))
SetBit(m, b, on) == IF on THEN BitSet(m, b) ELSE BitClr(m, b)
Pow2(n) == IF n = 0 THEN 1 ELSE 2 ^ n
SizeT(t) == IF t = -1 THEN -1 ELSE IF t < 0 THEN 2147483647 ELSE t      \* (size_t) of a negative int; ~0 = "no solo track"

Step(S, ev, fix) ==
  LET v == IF "v" \in DOMAIN ev THEN ev.v ELSE 0 IN
  CASE ev.e = "SetNumChips" ->
         IF v < 1 \/ v > 100 THEN (IF "numchips" \in fix THEN Rej(S) ELSE Rej([S EXCEPT !.nc = v]))
         ELSE IF Locked(S) THEN Ok([S EXCEPT !.nc = v])                \* stored only
         ELSE Ok(PartialReset([S EXCEPT !.nc = v, !.nco = v], FALSE, fix))
    [] ev.e = "SwitchEmulator" ->
         IF EmuAvail(v) THEN Ok(PartialReset([S EXCEPT !.emu = v, !.nco = IF "dumper" \in fix /\ S.nc \in 1..100 /\ ~Locked(S) THEN S.nc ELSE @],
                                             S.emu = Dumper /\ v # Dumper, fix))
         ELSE Rej(S)
    [] ev.e = "SetVolModel" ->
         IF Locked(S) THEN Ok([S EXCEPT !.vm = v])                     \* stored only
         ELSE Ok([S EXCEPT !.vm = v, !.vs = IF v = 0 THEN S.bvm ELSE IF v \in 1..5 THEN v - 1 ELSE @])
    [] ev.e = "SetAlloc" -> Ok([S EXCEPT !.al = IF v < -1 \/ v >= 3 THEN -1 ELSE v])
    [] ev.e = "SetLfo" -> Ok([S EXCEPT !.lfo = v, !.glfo = IF v < 0 THEN S.blfo ELSE Bool(v # 0)])
    [] ev.e = "SetLfoFreq" -> Ok([S EXCEPT !.lff = v, !.glff = IF v < 0 THEN S.blff ELSE v % 256])
    [] ev.e = "SetChipType" -> Apply([S EXCEPT !.ct = v], fix)
    [] ev.e = "SetScaleMod" -> Ok([S EXCEPT !.smod = v, !.smodS = Bool(v # 0)])
    [] ev.e = "SetFullBright" -> Ok([S EXCEPT !.frb = Bool(v # 0)])
    [] ev.e = "SetArp" -> Ok([S EXCEPT !.arp = Bool(v # 0)])
    [] ev.e = "SetSoftPan" -> Ok([S EXCEPT !.span = Bool(v # 0)])
    [] ev.e = "SetRunAtPcm" ->
         IF Locked(S) THEN Ok([S EXCEPT !.pcm = Bool(v # 0)])          \* stored only (the next partialReset applies it)
         ELSE Ok(PartialReset([S EXCEPT !.pcm = Bool(v # 0)], FALSE, fix))
    [] ev.e = "SetDevId" -> IF v < 0 \/ v > 15 THEN Rej(S) ELSE Ok([S EXCEPT !.dev = v])
    [] ev.e = "SetLoop" -> Ok([S EXCEPT !.loop = Bool(v # 0)])
    [] ev.e = "SetLoopCount" -> Ok([S EXCEPT !.ln = IF v = 0 THEN 1 ELSE v])
    [] ev.e = "SetHooksOnly" -> Ok([S EXCEPT !.ho = Bool(v # 0)])
    [] ev.e = "SetTempo" -> IF ev.num <= 0 THEN Ok(S) ELSE Ok([S EXCEPT !.tp = (1000 * ev.num) \div ev.den])
    [] ev.e = "SelectSong" -> Ok([S EXCEPT !.sg = v])
    [] ev.e = "TrackOpt" ->
         LET o == IF ev.o < 0 THEN 7 ELSE ev.o          \* 0xFFFFFFFF: flag 3, further bits set
             flag == o % 4
             rest == o - flag # 0
             inr == ev.t \in 0..(S.nt - 1)
         IN IF rest /\ "trackopt" \in fix THEN Rej(S)
            ELSE IF flag \in {1, 2} /\ ~inr THEN Rej(S)
            ELSE LET S1 == IF flag \in {1, 2} THEN [S EXCEPT !.td[ev.t + 1] = Bool(flag = 2)]
                           ELSE IF flag = 3 THEN [S EXCEPT !.solo = SizeT(ev.t)] ELSE S
                 IN IF rest THEN Rej(S1) ELSE Ok(S1)
    [] ev.e = "ChanEn" -> IF ev.c \in 0..15 THEN Ok([S EXCEPT !.cd = SetBit(@, Pow2(ev.c), ev.en = 0)]) ELSE Rej(S)
    [] ev.e = "SetHook" ->
         Ok(CASE ev.h = "raw" -> [S EXCEPT !.ir = ev.on]
              [] ev.h = "note" -> [S EXCEPT !.hn = ev.on]
              [] ev.h = "dbg" -> [S EXCEPT !.hd = ev.on, !.idb = ev.on]
              [] ev.h = "ls" -> [S EXCEPT !.hls = ev.on, !.ils = ev.on]
              [] OTHER -> [S EXCEPT !.hle = ev.on, !.ile = ev.on])
    [] ev.e \in {"Reset", "Probe", "PlaySong"} -> Ok(PartialReset(S, FALSE, fix))      \* both probes begin with opn2_reset
    [] ev.e = "OpenBank" ->
         IF ev.bad # 0 THEN Rej(S)
         ELSE LET h == BankHdr(ev.b) IN
              Apply([S EXCEPT !.bvm = h.vs, !.blfo = h.lfo, !.blff = h.lff, !.bct = h.ct,
                              !.vm = 0, !.lfo = -1, !.lff = -1, !.ct = -1, !.bd = BankDigest(ev.b)], fix)
    [] ev.e = "OpenMidi" ->
         IF S.bd = <<>> THEN Rej(S)                                   \* LoadMIDI_pre: "Bank is not set!"
         ELSE IF CrashChips(S.nc) /\ S.emu # Dumper THEN Crash(S)
         ELSE LET S1 == ApplySetup(S, fix)                            \* LoadMIDI_pre: ends the lock, applies the stored requests
                  \* a refused file (with the repair "rsxxlock" the lock of a loaded EA-MUS song survives it)
                  SR == IF Locked(S) /\ "rsxxlock" \in fix
                        THEN SynthReset([S1 EXCEPT !.mm = S.mm, !.vs = S.vs, !.nco = S.nco, !.pcmS = S.pcmS], S1.gct, FALSE, fix)
                        ELSE S1 IN
              \* BW_MidiSequencer::loadMIDI starts from Format_MIDI for EVERY file, then the parser of the sniffed container sets its own
              IF ev.bad = 5       \* a well-formed CMF / IMF song: parsed (one track, per-song options reset), then refused by LoadMIDI_post (F40)
              THEN Rej([SR EXCEPT !.nt = 1, !.td = <<0>>, !.cd = 0, !.solo = -1, !.fmt = RefusedFmt(ev)])
              ELSE IF ev.bad # 0                                      \* the parser rejects; the previous song stays
              THEN Rej([SR EXCEPT !.fmt = FmtMIDI])
              ELSE LET sg == Song(ev.s)
                       \* LoadMIDI_post acts on the format of THIS file: Format_RSXX (lock, Generic, two chips), Format_XMIDI (mode only;
                       \* parseXMI clamps the selected song number into the file: one sequence), everything else plain MIDI mode
                       S2 == IF sg.rsxx THEN [S1 EXCEPT !.mm = ModeRSXX, !.vs = 0, !.nco = 2]
                             ELSE IF sg.fmt = FmtXMIDI THEN [S1 EXCEPT !.mm = ModeXMIDI, !.sg = 0] ELSE S1
                   IN Ok(SynthReset([S2 EXCEPT !.nt = sg.nt, !.td = [i \in 1..sg.nt |-> 0], !.cd = 0, !.solo = -1, !.fmt = sg.fmt], S2.gct, FALSE, fix))
    [] OTHER -> Ok(S)
ModelStep(S, ev, fix) == LET x == Step(S, ev, fix) IN [s |-> Derive(x.s), r |-> x.r]

---------------------------------------------------------------------------
(* The documented state the predicates refer to: kept from the *calls*, independent of the model above.
   bank = the values of the last accepted bank (as the getters report them); hooks = registered callbacks.
   The set-up lock as a user sees it: locked = the last accepted music file was an EA-MUS song and no accepted call
   has re-applied the set-up since (a bank load, opn2_setChipType, an ordinary music file); a call that reports
   failure changes nothing, the lock included.  While locked the format's own volume model (Generic) and chip
   count (2) are in force; the getters that read m_setup (opn2_getNumChips) report the stored request, and the
   requests made before or during the lock are what is in force again once it is gone:
   req = the volume model / PCM-rate mode the getters must show then (-1: undocumented argument, unconstrained),
   rel = this very call ended the lock, vmok = the volume-model requests since the last bank were documented values
   (the setter is void and stores anything: with an undocumented value stored nothing is expected of the lock's end). *)
R0 == [bank |-> [gvm |-> 1, lfo |-> 0, lff |-> 0, ct |-> 0], hasBank |-> FALSE, song |-> 0,
       hooks |-> [raw |-> 0, note |-> 0, dbg |-> 0, ls |-> 0, le |-> 0],
       loop |-> 0, ln |-> -1, ho |-> 0, afterReject |-> FALSE, probe |-> <<>>, onlyFails |-> FALSE,
       locked |-> FALSE, rel |-> FALSE, req |-> [gvm |-> 1, pcmS |-> 0], vmok |-> TRUE]
HasR(ev) == ev.e \in {"SetNumChips", "SwitchEmulator", "SetRunAtPcm", "SetDevId", "TrackOpt", "ChanEn", "OpenBank", "OpenMidi"}
Failed(ev, r) == HasR(ev) /\ r < 0
RefStep(R, ev, r, pre) ==
  LET v == IF "v" \in DOMAIN ev THEN ev.v ELSE 0
      lk == CASE ev.e = "OpenMidi" /\ r = 0 -> Song(ev.s).rsxx
              [] ev.e = "OpenBank" /\ r = 0 -> FALSE
              [] ev.e = "SetChipType" -> FALSE
              [] OTHER -> R.locked
      rq == IF ~R.locked THEN (IF lk THEN [gvm |-> IF R.vmok THEN pre.gvm ELSE -1, pcmS |-> pre.pcmS] ELSE R.req)
            ELSE CASE ev.e = "SetVolModel" -> [R.req EXCEPT !.gvm = IF v = 0 THEN R.bank.gvm ELSE IF v \in 1..5 THEN v ELSE -1]
                   [] ev.e = "SetRunAtPcm" /\ r = 0 -> [R.req EXCEPT !.pcmS = IF v \in 0..1 THEN v ELSE -1]
                   [] OTHER -> R.req
      R1 == [(IF Failed(ev, r) \/ ev.e = "Probe" THEN R ELSE [R EXCEPT !.onlyFails = FALSE])
               EXCEPT !.locked = lk, !.rel = R.locked /\ ~lk, !.req = rq,
                      !.vmok = IF ev.e = "SetVolModel" THEN v \in 0..5 ELSE IF ev.e = "OpenBank" /\ r = 0 THEN TRUE ELSE @] IN
  CASE ev.e = "OpenBank" /\ r = 0 ->
         LET h == BankHdr(ev.b) IN [R1 EXCEPT !.bank = [gvm |-> h.vs + 1, lfo |-> h.lfo, lff |-> h.lff, ct |-> h.ct], !.hasBank = TRUE]
    [] ev.e = "OpenMidi" -> IF r = 0 THEN [R1 EXCEPT !.song = ev.s, !.afterReject = FALSE] ELSE [R1 EXCEPT !.afterReject = TRUE]
    [] ev.e = "SetHook" -> [R1 EXCEPT !.hooks[ev.h] = ev.on]
    [] ev.e = "SetLoop" -> [R1 EXCEPT !.loop = Bool(ev.v # 0)]
    [] ev.e = "SetLoopCount" -> [R1 EXCEPT !.ln = ev.v]
    [] ev.e = "SetHooksOnly" -> [R1 EXCEPT !.ho = Bool(ev.v # 0)]
    [] ev.e = "Probe" -> IF "pa" \in DOMAIN ev THEN [R1 EXCEPT !.probe = <<ev.pa>>, !.onlyFails = TRUE] ELSE R1
    [] OTHER -> R1

---------------------------------------------------------------------------
(* Property predicates.  pre / post are observations (or model states), r the reported result. *)
\* settings whose value must survive every call that does not target them
PersistF == {"nc", "gvm", "al", "glfo", "glff", "gct", "arp", "emun", "emu", "pcmS", "smodS", "frb", "span", "dev",
             "loop", "ln", "tp", "sg", "solo", "td", "cd", "nt", "bd"}
HookF == {"hn", "hd", "idb", "ir", "ils", "ile"}
SongF == {"solo", "td", "cd", "nt"}                \* options "of the current sequence"
\* everything a call that reports failure must leave alone
RejF == PersistF \cup HookF \cup {"nco", "ho"}
\* the live values the EA-MUS format takes over / the lock defers
LockF == {"nco", "gvm", "pcmS"}

\* while the VGM dumper is the emulator the loop-hook slots and "loop hooks only" of the sequencer belong to it
\* (every chip re-creation, also the one inside a rejected music load, takes them again)
DumperF(o) == IF o.emu = Dumper THEN {"ils", "ile", "ho"} ELSE {}

\* what a call may change
Target(ev) ==
  CASE ev.e = "SetNumChips" -> {"nc", "nco"}   [] ev.e = "SwitchEmulator" -> {"emun", "emu"}
    [] ev.e = "SetVolModel" -> {"gvm"}         [] ev.e = "SetAlloc" -> {"al"}
    [] ev.e = "SetLfo" -> {"glfo"}             [] ev.e = "SetLfoFreq" -> {"glff"}
    [] ev.e = "SetChipType" -> {"gct"}         [] ev.e = "SetScaleMod" -> {"smodS"}
    [] ev.e = "SetFullBright" -> {"frb"}       [] ev.e = "SetArp" -> {"arp"}
    [] ev.e = "SetSoftPan" -> {"span"}         [] ev.e = "SetRunAtPcm" -> {"pcmS"}
    [] ev.e = "SetDevId" -> {"dev"}            [] ev.e = "SetLoop" -> {"loop"}
    [] ev.e = "SetLoopCount" -> {"ln"}         [] ev.e = "SetHooksOnly" -> {"ho"}
    [] ev.e = "SetTempo" -> {"tp"}             [] ev.e = "SelectSong" -> {"sg"}
    [] ev.e = "TrackOpt" -> {"td", "solo"}     [] ev.e = "ChanEn" -> {"cd"}
    [] ev.e = "OpenBank" -> {"gvm", "glfo", "glff", "gct", "bd"}
    [] ev.e = "OpenMidi" -> IF Song(ev.s).fmt = FmtXMIDI THEN SongF \cup {"sg"} ELSE SongF
    [] OTHER -> {}
\* the value the matching getter must report after an accepted call with a documented argument
Exp(ev, pre, R) ==
  LET v == IF "v" \in DOMAIN ev THEN ev.v ELSE 0 IN
  CASE ev.e = "SetNumChips" -> {<<"nc", v>>}
    [] ev.e = "SwitchEmulator" -> {<<"emun", EmuName(v)>>, <<"emu", v>>}
    [] ev.e = "SetVolModel" /\ v \in 0..5 -> IF R.locked THEN {<<"vm", v>>} ELSE {<<"gvm", IF v = 0 THEN R.bank.gvm ELSE v>>}
    [] ev.e = "SetAlloc" /\ v \in -1..2 -> {<<"al", v>>}
    [] ev.e = "SetLfo" /\ v \in -1..1 -> {<<"glfo", IF v < 0 THEN R.bank.lfo ELSE v>>}
    [] ev.e = "SetLfoFreq" /\ v \in -1..7 -> {<<"glff", IF v < 0 THEN R.bank.lff ELSE v>>}
    [] ev.e = "SetChipType" /\ v \in -1..1 -> {<<"gct", IF v < 0 THEN R.bank.ct ELSE v>>}
    [] ev.e = "SetScaleMod" /\ v \in 0..1 -> {<<"smodS", v>>}
    [] ev.e = "SetFullBright" /\ v \in 0..1 -> {<<"frb", v>>}
    [] ev.e = "SetArp" /\ v \in 0..1 -> {<<"arp", v>>}
    [] ev.e = "SetSoftPan" /\ v \in 0..1 -> {<<"span", v>>}
    [] ev.e = "SetRunAtPcm" /\ v \in 0..1 -> IF R.locked THEN {<<"pcm", v>>} ELSE {<<"pcmS", v>>}
    [] ev.e = "SetDevId" -> {<<"dev", v>>}
    [] ev.e = "SetLoop" /\ v \in 0..1 -> {<<"loop", v>>}
    [] ev.e = "SetLoopCount" /\ (v = -1 \/ v >= 1) -> {<<"ln", v>>}
    [] ev.e = "SetHooksOnly" /\ v \in 0..1 -> {<<"ho", v>>}
    [] ev.e = "SetTempo" /\ ev.num > 0 -> {<<"tp", (1000 * ev.num) \div ev.den>>}
    [] ev.e = "SelectSong" /\ v >= 0 -> {<<"sg", v>>}
    [] ev.e = "TrackOpt" /\ ev.o \in {1, 2} /\ (ev.t + 1) \in DOMAIN pre.td -> {<<"td", [pre.td EXCEPT ![ev.t + 1] = Bool(ev.o = 2)]>>}
    [] ev.e = "TrackOpt" /\ ev.o = 3 /\ ev.t >= 0 -> {<<"solo", ev.t>>}
    [] ev.e = "ChanEn" /\ ev.en \in 0..1 /\ pre.nt > 0 /\ ev.c \in 0..15 -> {<<"cd", SetBit(pre.cd, Pow2(ev.c), ev.en = 0)>>}
    [] ev.e = "OpenBank" -> LET h == BankHdr(ev.b) IN
         {<<"gvm", h.vs + 1>>, <<"glfo", h.lfo>>, <<"glff", h.lff>>, <<"gct", h.ct>>, <<"bd", BankDigest(ev.b)>>}
    [] ev.e = "OpenMidi" -> {<<"nt", Song(ev.s).nt>>}
    [] OTHER -> {}

Lab(pfx, S) == { pfx \o f : f \in S }
\* the set-up lock (R = documented state before the accepted call, R1 = after it)
LockFails(pre, ev, post, R, R1) ==
  \* while an EA-MUS song is the loaded one its own volume model and chip count are in force
  (IF R1.locked /\ post.nco # 2 THEN {"locked-inforce:nco"} ELSE {})
  \cup (IF R1.locked /\ post.gvm # 1 THEN {"locked-inforce:gvm"} ELSE {})
  \* a deferred PCM-rate request comes into force at some chip re-creation, nothing else moves the value
  \cup (IF R.locked /\ R1.locked /\ R1.req.pcmS # -1 /\ post.pcmS # pre.pcmS /\ post.pcmS # R1.req.pcmS THEN {"locked-persist:pcmS"} ELSE {})
  \* the lock is gone: the requests made before / during it are in force (the chip count: see ForceFails)
  \cup (IF R1.rel /\ ev.e # "OpenBank" /\ R.req.gvm # -1 /\ post.gvm # R.req.gvm THEN {"locked-apply:gvm"} ELSE {})
  \cup (IF R1.rel /\ R.req.pcmS # -1 /\ post.pcmS # R.req.pcmS THEN {"locked-apply:pcmS"} ELSE {})
\* accepted values stick / rejected calls change nothing / everything else persists
CallFails(pre, ev, r, post, R, R1) ==
  IF Failed(ev, r)
  THEN LET unl == Locked(pre) /\ ~Locked(post)          \* the rejected call ended the set-up lock: one label for the class,
           \* the live values that moved with it (chip count, volume model, PCM-rate mode) are part of it
           chg == { f \in (IF ev.e = "OpenMidi" THEN RejF \ SongF ELSE RejF) \ DumperF(pre) : post[f] # pre[f] }
       IN Lab("reject-changed:", IF unl THEN chg \ LockF ELSE chg)
          \cup (IF unl THEN {"reject-unlocked"} ELSE {})
          \cup (IF ev.e \in {"OpenBank", "OpenMidi"} /\ "er" \in DOMAIN post /\ post.er # 1 THEN {"reject-noerror"} ELSE {})
  ELSE Lab(IF R.locked THEN "locked-stick:" ELSE "stick:", { x[1] : x \in { y \in Exp(ev, pre, R) : post[y[1]] # y[2] } })
       \cup Lab("persist:", { f \in (PersistF \ Target(ev)) \ ((IF R.locked # R1.locked THEN {"gvm"} ELSE {}) \cup (IF R.locked THEN {"pcmS"} ELSE {})) :
                              post[f] # pre[f] })
       \cup LockFails(pre, ev, post, R, R1)
\* the state every call must leave in force (R1 = documented state after the call)
ForceFails(post, R1) ==
  (IF ~R1.locked /\ post.nc \in 1..100 /\ post.nco # (IF post.emu = Dumper THEN Min(post.nc, 2) ELSE post.nc)
   THEN {IF R1.rel THEN "locked-apply:nco" ELSE "inforce:nco"} ELSE {})
  \cup (IF post.emu # Dumper /\ post.ho # R1.ho THEN {"inforce:ho"} ELSE {})
  \cup Lab("hook-slot:", { h \in {"raw", "note", "dbg"} \cup (IF post.emu # Dumper THEN {"ls", "le"} ELSE {}) :
            CASE h = "raw" -> post.ir # R1.hooks.raw
              [] h = "note" -> post.hn # R1.hooks.note
              [] h = "dbg" -> post.hd # R1.hooks.dbg \/ post.idb # R1.hooks.dbg
              [] h = "ls" -> post.ils # R1.hooks.ls
              [] OTHER -> post.ile # R1.hooks.le })
\* a valid file after a rejected one
ReloadFails(ev, r, R) == IF ev.e = "OpenMidi" /\ ev.bad = 0 /\ R.hasBank /\ R.afterReject /\ r # 0 THEN {"reload-after-reject"} ELSE {}
ReloadCounts(ev, R) == ev.e = "OpenMidi" /\ ev.bad = 0 /\ R.hasBank /\ R.afterReject
\* every music load is judged on THAT file alone, whatever the instance was given before (accepted or refused): a valid file
\* of a supported container is accepted once a bank is there, a damaged file / a file of a refused format is not; an accepted
\* file leaves the music mode and the sequencer format its own container dictates (and with them the lock: see RefStep)
LoadFails(ev, r, post, R) ==
  IF ev.e # "OpenMidi" \/ ~R.hasBank THEN {}
  ELSE (IF ev.bad = 0 /\ r # 0 /\ ~R.afterReject THEN {"load-refused"} ELSE {})
       \cup (IF ev.bad # 0 /\ r = 0 THEN {"load-accepted"} ELSE {})
       \cup (IF ev.bad = 0 /\ r = 0 /\ post.mm # Song(ev.s).mm THEN {"load-mode"} ELSE {})
       \cup (IF ev.bad = 0 /\ r = 0 /\ post.fmt # Song(ev.s).fmt THEN {"load-format"} ELSE {})

\* the twin received the same history without the calls that reported failure
\* (a rejected call ended the set-up lock on A, the twin is still locked: the class reject-unlocked)
\* ("song": the identity of the loaded song, an observation outside the model -- a refused file must not replace the song)
TwinFails(a, b) ==
  LET d == { f \in (RejF \cup (IF "song" \in DOMAIN a THEN {"song"} ELSE {})) \ DumperF(a) : a[f] # b[f] }
      unl == Locked(b) /\ ~Locked(a)
  IN Lab("twin:", IF unl THEN d \ LockF ELSE d) \cup (IF unl THEN {"reject-unlocked"} ELSE {})

\* rendered phrase: identical on the twin, and identical to the previous probe when only rejected calls lie between
AudioComparable(o) == o.emu \notin {2, Dumper}        \* GENS: address-dependent LSBs; the dumper renders nothing
ProbeFails(ev, R) ==
  (IF ev.pa.wh # ev.pb.wh \/ ev.pa.wn # ev.pb.wn THEN {"probe-twin:writes"} ELSE {})
  \cup (IF AudioComparable(ev.oa) /\ ev.oa.emu = ev.ob.emu /\ ev.oa.nco = ev.ob.nco /\ (ev.pa.ah # ev.pb.ah \/ ev.pa.loud # ev.pb.loud) THEN {"probe-twin:audio"} ELSE {})
  \cup (IF R.onlyFails /\ R.probe # <<>> /\ (R.probe[1].wh # ev.pa.wh \/ R.probe[1].wn # ev.pa.wn) THEN {"probe-sandwich:writes"} ELSE {})
  \cup (IF R.onlyFails /\ R.probe # <<>> /\ AudioComparable(ev.oa) /\ R.probe[1].ah # ev.pa.ah THEN {"probe-sandwich:audio"} ELSE {})

\* playback of the loaded song: hooks fire iff registered, notes follow the loop / track / channel settings in force
TrackOn(o, t) == (o.solo = -1 \/ o.solo = t) /\ (t + 1) \in DOMAIN o.td /\ o.td[t + 1] = 0
ChanOn(o, c) == ~BitHas(o.cd, Pow2(c))
Passes(R) == IF R.loop = 0 \/ R.ho = 1 THEN 1 ELSE IF R.ln < 0 THEN -1 ELSE IF R.ln = 0 THEN 0 ELSE IF R.ln > 5 THEN -1 ELSE R.ln   \* -1 many, 0 undocumented
PlayFails(p, o, R) ==
  IF p.played = 0 \/ R.song = 0 THEN {}
  ELSE LET sg == Song(R.song)
           nA == Cardinality({ i \in DOMAIN p.kons : p.kons[i] < 4 })
           nB == Cardinality({ i \in DOMAIN p.kons : p.kons[i] >= 4 })
           onA == TrackOn(o, sg.trA) /\ ChanOn(o, 0) /\ o.nco >= 1
           onB == sg.trB >= 0 /\ TrackOn(o, sg.trB) /\ ChanOn(o, 1) /\ o.nco >= 1
           any == \E t \in 0..(sg.nt - 1) : TrackOn(o, t)
           P == Passes(R)
           usr == o.emu # Dumper
           Fire(h, i, cond) == IF R.hooks[h] = 0 THEN p.hc[i] # 0 ELSE cond /\ p.hc[i] = 0
       IN (IF o.emu # Dumper /\ P >= 1 /\ (nA # (IF onA THEN P ELSE 0) \/ nB # (IF onB THEN P ELSE 0)) THEN {"play:notes"} ELSE {})
          \cup (IF o.emu # Dumper /\ P = -1 /\ ((onA /\ nA < 3) \/ (~onA /\ nA # 0) \/ (onB /\ nB < 3) \/ (~onB /\ nB # 0)) THEN {"play:loops"} ELSE {})
          \cup (IF Fire("raw", 1, any) THEN {"hook-fire:raw"} ELSE {})
          \cup (IF Fire("note", 2, nA + nB > 0) THEN {"hook-fire:note"} ELSE {})
          \cup (IF Fire("dbg", 3, sg.marks /\ TrackOn(o, 0)) THEN {"hook-fire:dbg"} ELSE {})
          \* loop hooks: must fire when looping is on and the track with the markers plays (loop off, no markers: not constrained)
          \cup (IF usr /\ Fire("ls", 4, sg.marks /\ R.loop = 1 /\ TrackOn(o, 0)) THEN {"hook-fire:ls"} ELSE {})
          \cup (IF usr /\ Fire("le", 5, sg.marks /\ R.loop = 1 /\ TrackOn(o, 0)) THEN {"hook-fire:le"} ELSE {})
=============================================================================
