---------------------------- MODULE IsolationTrace ----------------------------
(* C14, legs B and C: validation of executions recorded by harness/drive_isolation.cpp.

   One execution = an Init record followed by one record per API call (field i = instance 0..7) in the
   order the calls were made.  The Init record carries, per instance, the records of the SOLO runs of
   that instance's own history in a fresh process (ref = run 1, ref2 = the same history repeated, with
   different garbage in freshly allocated memory), and for threaded executions in a ThreadSanitizer
   build the racing locations of the observed run.

   Monitors (all evaluated here; the harness computes no expected value):
     P1  isolation     the k-th call of instance i in the interleaved / threaded execution returns the PCM
                       (hash, length) and produces the register-tap stream (hash, count) of the k-th call of
                       the solo run of hist[i]: obs = Ref[i][Len(hist[i])].  TLC builds hist[i] from the
                       trace and checks that the solo run really ran the same calls (label harness-ref-binding).
                       A PCM mismatch is labelled by the cell the MODEL (spec/Isolation.tla, run in lock step on
                       the same calls) says the call read a foreign value from: interference@nuked-chip_type,
                       interference@np2-lfotable; with no such cell: interference@unmodelled-<core> (+ drift).
     determinism       Ref[i][k] = Ref2[i][k]: label nondeterminism@<core>.
                       Both comparisons cover the panning decisions of the call (pw = values handed to writePan, lr = the
                       output bits written with them).  When the runs disagree on them and one side contradicts what the
                       model derives from the instance's OWN soft-pan setting and pan controllers (Isolation!PanLaw), the
                       label names that cause: interference@pan-setting / nondeterminism@pan-setting (a setting that came
                       from somebody else's calls or from what the heap held before the instance was created).
     leg C (pan)       every recorded panning decision of the three runs is in PanLaw of the model state; a decision
                       outside it is drift ("panning decision not explained ...").
     P2  race freedom  threaded execution, detector active: no sanitizer report; label race@<symbol>.
                       The model predicts the racing cells per round (calls of one round run concurrently,
                       rounds are separated by a barrier); a reported symbol outside the predicted cells is drift.
   cnt counts the non-vacuous evaluations of each monitor. *)
EXTENDS Isolation, Json, IOUtils
T == ndJsonDeserialize(IOEnv.TRACE)
MaxFails == 400       \* total
MaxPerLabel == 5      \* per label: a frequent (possibly known) failure must not crowd out a rare one
MaxN == 8
VARIABLES l, S, k, ref, ref2, meta, rnd, mraces, may, prev, fails, cnt, drift, exec
vars == <<l, S, k, ref, ref2, meta, rnd, mraces, may, prev, fails, cnt, drift, exec>>

Cnt0 == [execs |-> 0, calls |-> 0, iso_audio |-> 0, iso_audible |-> 0, iso_tap |-> 0, interleaved |-> 0, foreign_alive |-> 0,
         det |-> 0, det_audio |-> 0, bound |-> 0, predicted |-> 0, confirmed |-> 0, masked |-> 0, unmodelled |-> 0,
         par_execs |-> 0, par_calls |-> 0, race_evals |-> 0, race_reports |-> 0, race_cells_predicted |-> 0, race_unpredicted |-> 0,
         pan_decisions |-> 0, pan_off_centre |-> 0, pan_soft |-> 0, own_settings |-> 0, foreign_settings |-> 0,
         refined |-> 0, drifted |-> 0]
Meta0 == [n |-> 0, mode |-> "seq", tsan |-> 0, races |-> <<>>]
Rnd0 == [g |-> -1, acc |-> [i \in 1..MaxN |-> {}]]
\* threaded executions: values the order-sensitive cells MAY hold (calls of one round are not ordered)
May0 == [ct |-> {G0.ct}, lt |-> {G0.lt},                  \* at the start of the current round
         nct |-> {G0.ct}, nlt |-> {G0.lt},                \* after the current round
         wct |-> {}, wlt |-> {},                          \* written by anybody during the current round
         lfod |-> [i \in 1..MaxN |-> {}],                 \* what instance i may have latched at its last register-0x22 write
         taint |-> [i \in 1..MaxN |-> {}]]                \* cells that may have gone into instance i's chip state (as Inst.taint)
Init == l = 1 /\ S = S0(MaxN) /\ k = [i \in 1..MaxN |-> 0] /\ ref = <<>> /\ ref2 = <<>> /\ meta = Meta0 /\ rnd = Rnd0
        /\ mraces = {} /\ may = May0 /\ prev = 0 /\ fails = <<>> /\ cnt = Cnt0 /\ drift = <<>> /\ exec = 0

RECURSIVE AddSeq(_, _)
AddSeq(fs, new) == IF new = <<>> THEN fs
                   ELSE LET f == Head(new) IN
                        AddSeq(IF Len(fs) < MaxFails /\ Cardinality({ q \in DOMAIN fs : fs[q].w = f.w }) < MaxPerLabel THEN Append(fs, f) ELSE fs, Tail(new))
AddFails(F) == IF F = {} THEN fails ELSE AddSeq(fails, SetToSeq(F))
Fail(w, ev, d) == [p |-> "C14", w |-> w, l |-> l, x |-> exec, e |-> ev.e, d |-> d]

CmdFields == {"e", "i", "emu", "rate", "chips", "k", "p", "fr", "n", "v", "song", "g", "ch", "c", "vel", "s"}
Cmd(r) == [f \in (DOMAIN r \cap CmdFields) |-> r[f]]

\* panning decisions of one recorded call: <<value handed to writePan, L/R bits written with it>>
PanSeq(r) == IF "pw" \in DOMAIN r /\ "lr" \in DOMAIN r THEN [q \in 1..Len(r.pw) |-> <<r.pw[q], IF q <= Len(r.lr) THEN r.lr[q] ELSE -1>>] ELSE <<>>
PanBad(law, ps) == { q \in DOMAIN ps : [pw |-> ps[q][1], lr |-> ps[q][2]] \notin law }
PanOff(ps) == Cardinality({ q \in DOMAIN ps : ps[q] # <<64, 3>> })

\* sanitizer location -> cell of the model
MameSyms == {"tl_tab", "sin_tab", "lfo_pm_table"}
FmSyms == {"jedi_table", "(anonymous namespace)::jedi_table", "step_inc", "(anonymous namespace)::YM2608::step_inc"}
GensSyms == {"LibGens::Ym2612Private::isInit", "LibGens::Ym2612Private::SIN_TAB", "LibGens::Ym2612Private::TL_TAB",
             "LibGens::Ym2612Private::ENV_TAB", "LibGens::Ym2612Private::DECAY_TO_ATTACK", "LibGens::Ym2612Private::SL_TAB",
             "LibGens::Ym2612Private::NULL_RATE", "LibGens::Ym2612Private::LFO_ENV_TAB", "LibGens::Ym2612Private::LFO_FREQ_TAB"}
Np2Syms == {"PSG::EmitTable", "PSG::enveloptable", "PSG::noisetable", "FM::Operator::tablehasmade", "FM::Operator::sinetable",
            "FM::Operator::cltable", "FM::Channel4::kftable", "FM::Channel4::tablehasmade", "FM::OPNABase::tablehasmade",
            "FM::OPNABase::amtable", "FM::OPNABase::pmtable", "FM::OPNABase::tltable", "FM::tablemade", "FM::pmtable", "FM::amtable",
            "FM::MakeLFOTable()::tablemade", "FM::Chip::MakeTable()::tablemade"}
SymCell(r) == CASE r[2] \in MameSyms -> (IF r[4] = "fm.cpp" THEN "mamefm.tables" ELSE "mame.tables")
                [] r[2] \in FmSyms -> "mamefm.tables"
                [] r[2] = "chip_type" -> "nuked.chip_type"
                [] r[2] = "FM::OPNBase::lfotable" -> "np2.lfotable"
                [] r[2] \in Np2Syms -> "np2.tables"
                [] r[2] \in GensSyms -> "gens.tables"
                [] OTHER -> "unmodelled"

\* label of a report: the racing global, or the accessing function when the symbolizer has no name for the location
RaceSym(r) == IF r[2] \in {"?", "??", "heap", "stack"} THEN r[2] \o ":" \o r[3] ELSE r[2]

OtherAlive(St, i) == { j \in 1..MaxN : j # i /\ St.inst[j].alive }
RECURSIVE JoinEmus(_, _)
JoinEmus(St, js) == IF js = {} THEN "" ELSE LET j == CHOOSE x \in js : TRUE IN EmuName(St.inst[j].emu) \o " " \o JoinEmus(St, js \ {j})

\* ---- threaded executions: what the calls of the round starting at trace index l0 write to chip_type / lfotable.
\* An instance's own fields (core, rate, flags) depend on its own calls only, so each instance is folded separately.
GOf(ev) == IF "g" \in DOMAIN ev THEN ev.g ELSE -1
RECURSIVE RoundLast(_, _)
RoundLast(j, g) == IF j > Len(T) \/ T[j].e \in {"Init", "End"} THEN j - 1 ELSE IF GOf(T[j]) # g THEN j - 1 ELSE RoundLast(j + 1, g)
RECURSIVE FoldWrites(_, _, _, _, _)
FoldWrites(j, last, i, st, acc) ==      \* st = [g, inst] of instance i; acc = [ct |-> values written, lt |-> values written] (last value first)
  IF j > last THEN acc
  ELSE IF T[j].i + 1 # i THEN FoldWrites(j + 1, last, i, st, acc)
  ELSE LET r == Local(st.g, st.inst, [T[j] EXCEPT !.i = i]) IN
       FoldWrites(j + 1, last, i, [g |-> r.g, inst |-> r.inst],
                  [ct |-> IF <<"nuked.chip_type", "W">> \in r.acc THEN <<r.g.ct>> \o acc.ct ELSE acc.ct,
                   lt |-> IF <<"np2.lfotable", "W">> \in r.acc THEN <<r.g.lt>> \o acc.lt ELSE acc.lt])
RoundWrites(l0, St) == LET last == RoundLast(l0, GOf(T[l0])) IN
  [i \in 1..MaxN |-> FoldWrites(l0, last, i, [g |-> G0, inst |-> St.inst[i]], [ct |-> <<>>, lt |-> <<>>])]
\* cell values after an unordered round: the last write of any writer may be the final one
AfterRound(old, W, f(_)) == LET ws == { i \in 1..MaxN : f(W[i]) # <<>> } IN IF ws = {} THEN old ELSE { f(W[i])[1] : i \in ws }
CtOf(w) == w.ct
LtOf(w) == w.lt

StepInit(ev) ==
  LET hasref == "ref" \in DOMAIN ev IN
  /\ S' = S0(MaxN) /\ k' = [i \in 1..MaxN |-> 0]
  /\ ref' = IF hasref THEN ev.ref ELSE <<>>
  /\ ref2' = IF hasref THEN ev.ref2 ELSE <<>>
  /\ meta' = [n |-> ev.n, mode |-> ev.mode, tsan |-> IF hasref THEN ev.tsan ELSE 0, races |-> IF hasref THEN ev.races ELSE <<>>]
  /\ rnd' = Rnd0 /\ mraces' = {} /\ may' = May0 /\ prev' = 0 /\ exec' = exec + 1
  /\ fails' = fails /\ drift' = drift
  /\ cnt' = [cnt EXCEPT !.execs = @ + 1, !.par_execs = @ + (IF ev.mode = "par" THEN 1 ELSE 0)]

StepOp(ev) ==
  LET i == ev.i + 1
      kk == k[i] + 1
      has == i <= Len(ref) /\ kk <= Len(ref[i]) /\ i <= Len(ref2) /\ kk <= Len(ref2[i])
      R1 == ref[i][kk]
      R2 == ref2[i][kk]
      mev == [ev EXCEPT !.i = i]
      en == Enabled(S, mev)
      S1 == IF en THEN Step(S, mev) ELSE S
      audio == ev.e \in {"Gen", "Play"}
      emu == EmuName(IF ev.e = "Close" THEN S.inst[i].emu ELSE S1.inst[i].emu)
      par == meta.mode = "par"
      bound == has /\ Cmd(R1) = Cmd(ev) /\ Cmd(R2) = Cmd(ev)
      pcmEq == (~audio) \/ (ev.pcm = R1.pcm /\ ev.r = R1.r)
      tapEq == ev.tap = R1.tap /\ ev.tn = R1.tn
      detEq == R1.pcm = R2.pcm /\ R1.tap = R2.tap /\ R1.tn = R2.tn /\ (audio => R1.r = R2.r)
      \* panning decisions against the model's own-history state of the instance (after the call; Close / unknown controllers: no claim)
      IP == IF ev.e = "Close" THEN S.inst[i] ELSE S1.inst[i]
      panEval == bound /\ en /\ ev.e # "Play" /\ PanKnown(IP)
      law == IF panEval THEN PanLaw(IP) ELSE {}
      psO == PanSeq(ev)
      ps1 == IF has THEN PanSeq(R1) ELSE <<>>
      ps2 == IF has THEN PanSeq(R2) ELSE <<>>
      badO == IF panEval THEN PanBad(law, psO) ELSE {}
      bad1 == IF panEval THEN PanBad(law, ps1) ELSE {}
      bad2 == IF panEval THEN PanBad(law, ps2) ELSE {}
      panIso == psO # ps1 /\ (badO # {} \/ bad1 # {})      \* the interleaved run pans differently and one side is not the instance's own setting
      panDet == ps1 # ps2 /\ (bad1 # {} \/ bad2 # {})
      g == IF "g" \in DOMAIN ev THEN ev.g ELSE -1
      newround == g # rnd.g
      \* threaded: may-values of the order-sensitive cells for this round (computed once, at the round's first record)
      mayR == IF ~(par /\ newround) THEN may
              ELSE LET W == RoundWrites(l, S) IN
                   [ct |-> may.nct, lt |-> may.nlt,
                    nct |-> AfterRound(may.nct, W, CtOf), nlt |-> AfterRound(may.nlt, W, LtOf),
                    wct |-> UNION { SeqToSet(W[j].ct) : j \in 1..MaxN }, wlt |-> UNION { SeqToSet(W[j].lt) : j \in 1..MaxN },
                    lfod |-> may.lfod, taint |-> may.taint]
      I1 == S1.inst[i]
      lfodMay == IF ~par \/ ~en THEN {}
                 ELSE IF I1.emu # EMU_NP2 \/ ~I1.lfo THEN {}
                 ELSE IF ev.e \in {"Create", "Switch", "Pcm", "Chips", "Reset", "Load", "Fam"} THEN {LtKey(I1)} \cup mayR.wlt
                 ELSE IF ev.e = "Lfo" THEN mayR.lt \cup mayR.wlt
                 ELSE mayR.lfod[i]
      parDiag == IF ~par \/ ~en \/ ~audio THEN {}
                 ELSE mayR.taint[i] \cup (IF I1.emu \in {EMU_NUKED3438, EMU_NUKED2612} /\ ~FixChipType
                          /\ ~((mayR.ct \cup mayR.wct) \subseteq {IF I1.emu = EMU_NUKED3438 THEN "ym3438" ELSE "ym2612"}) THEN {"nuked-chip_type"} ELSE {})
                      \cup (IF I1.emu = EMU_NP2 /\ ~FixLfoTable /\ ~(lfodMay \subseteq {LtKey(I1)}) THEN {"np2-lfotable"} ELSE {})
      diag == (IF en THEN S1.last.diag ELSE {}) \cup parDiag
      may1 == [mayR EXCEPT !.lfod[i] = lfodMay,
                           !.taint[i] = IF ev.e \in {"Create", "Switch", "Pcm", "Chips", "Reset", "Load", "Fam", "Close"} THEN {} ELSE IF audio THEN diag ELSE @]
      ctx == "inst=" \o ToString(ev.i) \o " call=" \o ToString(kk) \o " core=" \o emu \o " others=" \o JoinEmus(S1, OtherAlive(S1, i))
      fIso == IF ~bound \/ pcmEq THEN {}
              ELSE IF diag # {} THEN { Fail("interference@" \o d, ev, ctx \o " obs=" \o ev.pcm \o " solo=" \o R1.pcm) : d \in diag }
              ELSE { Fail("interference@unmodelled-" \o emu, ev, ctx \o " obs=" \o ev.pcm \o " solo=" \o R1.pcm) }
      fTap == IF ~bound \/ tapEq THEN {}
              ELSE IF panIso THEN { Fail("interference@pan-setting", ev, ctx \o " pan obs=" \o ToString(psO) \o " solo=" \o ToString(ps1) \o " own setting allows " \o ToString(law)) }
              ELSE { Fail("interference@regstream", ev, ctx \o " obs=" \o ev.tap \o " solo=" \o R1.tap) }
      fDet == IF ~bound \/ detEq THEN {}
              ELSE IF panDet THEN { Fail("nondeterminism@pan-setting", ev, ctx \o " pan run1=" \o ToString(ps1) \o " run2=" \o ToString(ps2) \o " own setting allows " \o ToString(law)) }
              ELSE { Fail("nondeterminism@" \o emu, ev, ctx \o " run1=" \o R1.pcm \o " run2=" \o R2.pcm) }
      fBind == IF bound THEN {} ELSE { Fail("harness-ref-binding", ev, "inst=" \o ToString(ev.i) \o " call=" \o ToString(kk)) }
      \* leg C: the model must explain every observed interference; a call the model cannot take is drift
      dr == (IF ~en THEN {"call not enabled in the model"} ELSE {})
            \cup (IF bound /\ ~pcmEq /\ diag = {} THEN {"PCM differs from the solo run but the model sees no foreign cell (" \o emu \o ")"} ELSE {})
            \cup (IF badO \cup bad1 \cup bad2 # {}
                  THEN {"panning decision not explained by the instance's own soft-pan setting and pan controllers: obs=" \o ToString(psO)
                        \o " solo1=" \o ToString(ps1) \o " solo2=" \o ToString(ps2) \o " model=" \o ToString(law)} ELSE {})
      \* P2: model-predicted racing cells, per round
      rnd1 == IF newround THEN [g |-> g, acc |-> [Rnd0.acc EXCEPT ![i] = S1.last.acc]]
              ELSE [rnd EXCEPT !.acc[i] = @ \cup S1.last.acc]
      mr1 == IF newround THEN mraces \cup Races(rnd.acc) ELSE mraces
      isLast == l = Len(T) \/ T[l + 1].e \in {"Init", "End"}
      predicted == mr1 \cup Races(rnd1.acc)
      evalRace == par /\ isLast /\ meta.tsan = 1
      obsCells == { SymCell(meta.races[q]) : q \in DOMAIN meta.races }
      fRace == IF ~evalRace THEN {}
               ELSE { [Fail("race@" \o RaceSym(meta.races[q]), ev, "cell=" \o SymCell(meta.races[q]) \o " kind=" \o meta.races[q][1] \o " in " \o meta.races[q][3] \o " (" \o meta.races[q][4] \o ")")
                        EXCEPT !.e = "Threads"] : q \in DOMAIN meta.races }
      drRace == IF evalRace /\ ~(obsCells \subseteq predicted) THEN {"sanitizer reports a race on a cell the model does not predict: " \o ToString(obsCells \ predicted)} ELSE {}
      alld == dr \cup drRace
  IN /\ S' = S1 /\ k' = [k EXCEPT ![i] = kk] /\ prev' = i
     /\ rnd' = rnd1 /\ mraces' = mr1 /\ may' = may1
     /\ UNCHANGED <<ref, ref2, meta, exec>>
     /\ fails' = AddFails(fBind \cup fDet \cup fIso \cup fTap \cup fRace)
     /\ drift' = IF alld # {} /\ Len(drift) < 8 THEN Append(drift, [l |-> l, x |-> exec, e |-> ev.e, d |-> ToString(alld)]) ELSE drift
     /\ cnt' = [cnt EXCEPT
           !.calls = @ + 1,
           !.bound = @ + (IF bound THEN 1 ELSE 0),
           !.iso_audio = @ + (IF bound /\ audio THEN 1 ELSE 0),
           !.iso_audible = @ + (IF bound /\ audio /\ ev.nz > 0 /\ R1.nz > 0 THEN 1 ELSE 0),
           !.iso_tap = @ + (IF bound /\ ev.tn > 0 THEN 1 ELSE 0),
           !.interleaved = @ + (IF bound /\ audio /\ prev # 0 /\ prev # i THEN 1 ELSE 0),
           !.foreign_alive = @ + (IF bound /\ audio /\ OtherAlive(S1, i) # {} THEN 1 ELSE 0),
           !.det = @ + (IF bound THEN 1 ELSE 0),
           !.det_audio = @ + (IF bound /\ audio /\ R1.nz > 0 THEN 1 ELSE 0),
           !.predicted = @ + (IF audio /\ diag # {} THEN 1 ELSE 0),
           !.confirmed = @ + (IF bound /\ audio /\ diag # {} /\ ~pcmEq THEN 1 ELSE 0),
           !.masked = @ + (IF bound /\ audio /\ diag # {} /\ pcmEq THEN 1 ELSE 0),
           !.unmodelled = @ + (IF bound /\ audio /\ diag = {} /\ ~pcmEq THEN 1 ELSE 0),
           !.par_calls = @ + (IF par THEN 1 ELSE 0),
           !.race_evals = @ + (IF evalRace THEN 1 ELSE 0),
           !.race_reports = @ + (IF evalRace THEN Len(meta.races) ELSE 0),
           !.race_cells_predicted = @ + (IF evalRace THEN Cardinality(predicted) ELSE 0),
           !.race_unpredicted = @ + (IF evalRace THEN Cardinality(obsCells \ predicted) ELSE 0),
           !.pan_decisions = @ + (IF panEval THEN Len(psO) + Len(ps1) + Len(ps2) ELSE 0),
           !.pan_off_centre = @ + (IF panEval THEN PanOff(psO) + PanOff(ps1) + PanOff(ps2) ELSE 0),
           !.pan_soft = @ + (IF panEval /\ IP.cfg.softpan # 0 THEN Len(psO) ELSE 0),
           !.own_settings = @ + (IF bound /\ ev.e \in {"Set", "Ctl", "Bend"} THEN 1 ELSE 0),
           !.foreign_settings = @ + (IF bound /\ ev.e \in {"On", "Gen"} /\ (\E j \in OtherAlive(S1, i) : S1.inst[j].cfg # S1.inst[i].cfg) THEN 1 ELSE 0),
           !.refined = @ + 1,
           !.drifted = @ + (IF alld # {} THEN 1 ELSE 0)]

Next ==
  \/ /\ l <= Len(T) /\ l' = l + 1
     /\ LET ev == T[l] IN
        CASE ev.e = "Init" -> StepInit(ev)
          [] ev.e = "End" -> UNCHANGED <<S, k, ref, ref2, meta, rnd, mraces, may, prev, fails, cnt, drift, exec>>
          [] OTHER -> StepOp(ev)
  \/ /\ l = Len(T) + 1 /\ l' = l + 1
     /\ PrintT(<<"RESULT", ToJson([n |-> Len(T), fails |-> fails, cnt |-> cnt, drift |-> drift])>>)
     /\ UNCHANGED <<S, k, ref, ref2, meta, rnd, mraces, may, prev, fails, cnt, drift, exec>>
Spec == Init /\ [][Next]_vars
=============================================================================
