------------------------------ MODULE LevelMC ------------------------------
(* Leg (A) of C11: TLC walks the grid of loudness controls of the model spec/Level.tla.  A state is
   one setting [vm, v, c, e, m, b, frb] (volume model, velocity, CC7, CC11, master volume, CC74,
   full-range flag); a step moves ONE control to the neighbouring value of its grid (up or down), so
   every edge is "one control changes with the others fixed".  On every state and edge the property
   predicates of Level.tla are evaluated on the bytes the model computes, for all eight algorithms,
   modulator scaling on/off, melodic and percussion channel and the instrument TL bytes of `Cases`.
   Up-moves from the all-minimal corner reach every grid point and every up-edge (model checking);
   random up/down walks from the corners and centres of the grid are emitted as BEHAVIOUR lines in simulation mode
   and replayed on the real library.
   Lite = TRUE is the full-resolution mode: the per-operator formulas are checked once for all
   256 x 128 (factor, TL byte) pairs (Lemma) and the walk only checks the volume number itself
   (carrier TL = ScaleTL(volume, x) is antitone in volume by the lemma).
   ShareN > 0 selects the second model instead: ONE chip channel held by up to ShareN notes of one
   instrument (Level.tla part 3).  Notes join (NoteOn), their MIDI channel's CC7 / CC11 and the master
   volume change, notes leave, and the arpeggio ticks; every key-on must find the owner's levels in the
   registers (`stale`) and the predicates of C11 must hold for what is then heard.  ArpRelevel = TRUE is
   the code (the arpeggio's refresh mask contains Upd_Volume); FALSE shows what the invariant forbids.
   A holder can also be re-pitched (pitch bend: a key-on); TakeOver = TRUE is the code since /repo 5cd89c0 (a note keying
   on a channel whose registers were levelled for another note re-levels it), FALSE the code as written before (refuted:
   `stale`, `zero`).  With TakeOver = TRUE the invariant also holds for ArpRelevel = FALSE: the mask bit is redundant. *)
EXTENDS Level, Json
CONSTANTS Grid, MGrid, BGrid, VMs, FRBs, InitAll, Dirs, Lite, EmitDepth, MaxDepth, ShareN, ArpRelevel, TakeOver
ASSUME ShareN \in 0..4      \* the arpeggio counter is kept modulo 12 = a multiple of rate * holders for 2..4 holders
VARIABLES s, bad, hist
vars == <<s, bad, hist>>
View == <<s, bad>>

VGrid == Grid \ {0}                     \* velocity 0 is a NoteOff: no note, nothing to observe
AxisGrid(a) == CASE a = 1 -> VGrid [] a \in {2, 3} -> Grid [] a = 4 -> MGrid [] a = 5 -> BGrid
Get(t, a) == CASE a = 1 -> t.v [] a = 2 -> t.c [] a = 3 -> t.e [] a = 4 -> t.m [] a = 5 -> t.b
Put(t, a, x) == CASE a = 1 -> [t EXCEPT !.v = x] [] a = 2 -> [t EXCEPT !.c = x] [] a = 3 -> [t EXCEPT !.e = x]
                  [] a = 4 -> [t EXCEPT !.m = x] [] a = 5 -> [t EXCEPT !.b = x]
MinOf(S) == CHOOSE x \in S : \A y \in S : x <= y
MaxOf(S) == CHOOSE x \in S : \A y \in S : x >= y
\* neighbour of x in grid g in direction d (1 up, 2 down); -1 if none
Neighbour(g, x, d) == LET cand == IF d = 1 THEN { y \in g : y > x } ELSE { y \in g : y < x }
                      IN IF cand = {} THEN -1 ELSE IF d = 1 THEN MinOf(cand) ELSE MaxOf(cand)

ObsOf(t, vol, alg, smod, perc, itl) ==
  LET o == [vm |-> t.vm, smod |-> smod, frb |-> t.frb, perc |-> perc, alg |-> alg, itl |-> itl, veloff |-> 0, soft |-> FALSE,
            v |-> t.v, vol |-> t.c, expr |-> t.e, mv |-> t.m, b |-> t.b, tl |-> <<>>]
  IN [o EXCEPT !.tl = ModelTLv(o, vol)]
ITL(n) == CASE n = 1 -> <<20, 30, 40, 10>> [] n = 2 -> <<0, 127, 64, 1>> [] n = 3 -> <<127, 0, 1, 126>>
\* every algorithm x scaling (melodic), every algorithm on the percussion channel, extreme TL bytes per carrier mask
Cases == { <<alg, smod, FALSE, ITL(1)>> : alg \in 0..7, smod \in BOOLEAN }
         \cup { <<alg, FALSE, TRUE, ITL(2)>> : alg \in 0..7 }
         \cup { <<alg, smod, FALSE, ITL(3)>> : alg \in {0, 4, 5, 7}, smod \in BOOLEAN }

VolOf(t) == Volume(t.vm, t.v, t.c, t.e, t.m)
StateBad(t) ==
  IF Lite THEN (IF VolOf(t) \in 0..127 THEN {} ELSE {"range"}) \cup (IF (t.c = 0 \/ t.e = 0 \/ t.m = 0) /\ VolOf(t) # 0 THEN {"zero"} ELSE {})
  ELSE LET vt == VolOf(t) IN UNION { Single(ObsOf(t, vt, q[1], q[2], q[3], q[4])) : q \in Cases }
EdgeBad(t, u) ==
  IF Lite THEN (IF \E a \in 1..4 : (Get(u, a) > Get(t, a) /\ VolOf(u) < VolOf(t)) \/ (Get(u, a) < Get(t, a) /\ VolOf(u) > VolOf(t)) THEN {"monotone"} ELSE {})
  ELSE LET vt == VolOf(t)  vu == VolOf(u)
       IN UNION { LET ou == ObsOf(u, vu, q[1], q[2], q[3], q[4]) IN Single(ou) \cup Pair(ObsOf(t, vt, q[1], q[2], q[3], q[4]), ou) : q \in Cases }

(* The per-operator formulas for every factor and TL byte: range, antitone in the factor (a larger
   volume / brightness never attenuates more), volume 0 => 127, never below the instrument's own
   attenuation, identity at full brightness, monotone brightness mappings. *)
Lemma ==
  /\ \A f \in 0..127, x \in 0..127 : ScaleTL(f, x) \in 0..127 /\ ScaleTL(f, x) >= x /\ (f < 127 => ScaleTL(f + 1, x) <= ScaleTL(f, x))
  /\ \A x \in 0..127 : ScaleTL(0, x) = 127 /\ ScaleTL(127, x) = x
  /\ \A b \in 0..126 : BrightStep(b) <= BrightStep(b + 1) /\ BrightStep(b) \in 0..126
  /\ \A b \in 0..126, frb \in BOOLEAN : BrightArg(frb, FALSE, b) <= BrightArg(frb, FALSE, b + 1)
  /\ \A b \in 0..126, n \in 1..4 : BrightIter(b, n) <= BrightIter(b + 1, n)
  /\ \A i \in 1..127 : DmxTab[i] <= DmxTab[i + 1]
  /\ \A i \in 1..31 : W9xTab[i] >= W9xTab[i + 1]
  /\ \A i \in 1..62 : GenThr[i] < GenThr[i + 1]

---------------------------------------------------------------------------
(* The time-shared chip channel.  s = [vm, m, C]; holders are notes of one instrument (algorithm 4: two
   carriers, two modulators) that differ in velocity, CC7 and CC11. *)
SHolders == { [perc |-> FALSE, alg |-> 4, itl |-> ITL(1), veloff |-> 0, soft |-> FALSE, v |-> v, vol |-> c, expr |-> e, b |-> 127] :
              v \in VGrid, c \in Grid, e \in Grid }
SG(vm, m) == [vm |-> vm, smod |-> FALSE, frb |-> FALSE, mv |-> m]
Norm(C) == [C EXCEPT !.ctr = @ % 12]
KeyedBad(G, C) == KeyOnBad(KeyOnObs(G, C)) \cup KeyOnStale(G, C)
ShareInit == s \in [vm : VMs, m : MGrid, C : {ChanEmpty}] /\ bad = {} /\ hist = <<>>
ShareTo(vm, m, C, keyed) ==
  /\ s' = [vm |-> vm, m |-> m, C |-> C] /\ hist' = hist
  /\ bad' = bad \cup (IF keyed THEN KeyedBad(SG(vm, m), C) ELSE {})
ShareNext ==
  LET G == SG(s.vm, s.m)  C == s.C  n == Len(s.C.users) IN
  \/ \E h \in SHolders : n < ShareN /\ ShareTo(s.vm, s.m, ChanJoin(G, C, h), TRUE)
  \/ \E i \in 1..n, x \in Grid : \/ x # C.users[i].vol /\ ShareTo(s.vm, s.m, ChanCtl(G, C, i, [C.users[i] EXCEPT !.vol = x]), FALSE)
                                 \/ x # C.users[i].expr /\ ShareTo(s.vm, s.m, ChanCtl(G, C, i, [C.users[i] EXCEPT !.expr = x]), FALSE)
  \/ \E m \in MGrid : m # s.m /\ ShareTo(s.vm, m, ChanRelevelAll(SG(s.vm, m), C), FALSE)
  \/ \E i \in 1..n : ShareTo(s.vm, s.m, ChanLeave(C, i), FALSE)
  \/ \E i \in 1..n : ShareTo(s.vm, s.m, ChanRepitch(G, C, i, TakeOver), TRUE)
  \/ ShareTo(s.vm, s.m, Norm(ChanTick(G, C, ArpRelevel, TakeOver)), n >= 2)

MidOf(S) == CHOOSE x \in S : Cardinality({ y \in S : y < x }) = Cardinality(S) \div 2
Ends(S) == {MinOf(S), MidOf(S), MaxOf(S)}
Starts == IF InitAll THEN [vm : VMs, v : Ends(VGrid), c : Ends(Grid), e : Ends(Grid), m : Ends(MGrid), b : Ends(BGrid), frb : FRBs]
          ELSE [vm : VMs, v : {MinOf(VGrid)}, c : {MinOf(Grid)}, e : {MinOf(Grid)}, m : {MinOf(MGrid)}, b : {MinOf(BGrid)}, frb : FRBs]
Init == IF ShareN > 0 THEN ShareInit ELSE
        /\ s \in Starts
        /\ bad = StateBad(s) \cup (IF Lemma THEN {} ELSE {"lemma"})
        /\ hist = <<s.vm, s.v, s.c, s.e, s.m, s.b, IF s.frb THEN 1 ELSE 0>>
Next == IF ShareN > 0 THEN ShareNext ELSE \E mv \in 1..10 :
  LET a == ((mv - 1) \div 2) + 1
      d == ((mv - 1) % 2) + 1
      y == Neighbour(AxisGrid(a), Get(s, a), d)
      u == Put(s, a, y)
  IN /\ d \in Dirs /\ y # -1
     /\ s' = u /\ hist' = Append(hist, mv)
     /\ bad' = bad \cup (IF Lite THEN StateBad(u) ELSE {}) \cup EdgeBad(s, u)
Spec == Init /\ [][Next]_vars
NoBad == bad = {}
DepthBound == TLCGet("level") < MaxDepth
Emit == (Len(hist) = 7 + EmitDepth) => PrintT(<<"BEHAVIOUR", ToJson(hist)>>)
=============================================================================
