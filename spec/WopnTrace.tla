------------------------------ MODULE WopnTrace ------------------------------
(* C15 (+ loader half of C02): validation of recorded WOPN/OPNI save/load executions
   (harness/drive_wopn) against the property (monitors, leg B) and against the model of
   spec/Wopn.tla (refinement, leg C: result codes, bytes written, calculated sizes, and for
   small images the exact bytes and the exact decoded value).

   st.W      current value (bank: sparse record, inst: [ver, drum, I]); st.adopted: it came from the loader
   st.clean  the kept image is the unmodified result of a successful save of st.isrc as version st.iv
   st.hasb   the bytes of the kept image are known (st.ib) *)
EXTENDS Wopn, Json, IOUtils
T == ndJsonDeserialize(IOEnv.TRACE)
MaxPerLabel == 4          \* failures kept per label (a frequent, possibly known, class must never crowd out another one)
VARIABLES l, st, fails, cnt, drift, exec
vars == <<l, st, fails, cnt, drift, exec>>
St0 == [kind |-> "none", W |-> <<>>, sz |-> <<0, 0>>, adopted |-> FALSE, apat |-> FALSE, ipat |-> FALSE,
        clean |-> FALSE, iv |-> 0, isrc |-> <<>>, iad |-> FALSE, in |-> 0, hasb |-> FALSE, ib |-> <<>>,
        hasL |-> FALSE, L |-> <<>>]
Cnt0 == [steps |-> 0, execs |-> 0, banks |-> 0, insts |-> 0, adopts |-> 0, sizes |-> 0, slack |-> 0,
         saves |-> 0, saves_ok |-> 0, undersized |-> 0, fullsize |-> 0, footprint |-> 0,
         loads |-> 0, loads_ok |-> 0, loads_rejected |-> 0, truncated_clean |-> 0,
         rt_bank_v1 |-> 0, rt_bank_v2 |-> 0, rt_inst_v1 |-> 0, rt_inst_v2 |-> 0, rt_instruments |-> 0,
         lim_blank_delay |-> 0, lim_zero_delay |-> 0, unterminated |-> 0, bigbanks |-> 0,
         identity |-> 0, identity_patched |-> 0, zero_count |-> 0,
         c02_loads |-> 0, c02_api |-> 0, enc_bytes |-> 0, dec_bytes |-> 0, refined |-> 0, drifted |-> 0]
Init == l = 1 /\ st = St0 /\ fails = <<>> /\ cnt = Cnt0 /\ drift = <<>> /\ exec = 0

Tag(p, S, ev, d) == { [p |-> p, w |-> x, l |-> l, x |-> exec, e |-> ev.o, d |-> d] : x \in S }
AddFails(S) == LET keep == { x \in S : Cardinality({ i \in DOMAIN fails : fails[i].p = x.p /\ fails[i].w = x.w }) < MaxPerLabel } IN
               IF keep = {} THEN fails ELSE fails \o SetToSeq(keep)
Lbl(c, s) == IF c THEN {} ELSE {s}
B(c) == IF c THEN 1 ELSE 0
AddDrift(d, ev) == IF d # {} /\ Len(drift) < 6 THEN Append(drift, [l |-> l, x |-> exec, e |-> ev.o, d |-> ToString(d)]) ELSE drift
Has(ev, f) == f \in DOMAIN ev

IsBank == st.kind = "bank"
WNm == IF IsBank THEN st.W.nm ELSE 0
WNp == IF IsBank THEN st.W.np ELSE 0
EncOf(kind, V, ver) == IF kind = "bank" THEN EncLen(V.nm, V.np, ver) ELSE EncInstLen(ver)
CalcOf(kind, V, ver) == IF kind = "bank" THEN CalcSize(V.nm, V.np, ver) ELSE CalcInstSize(ver)
InsOf(V) == { V.ins[k][4] : k \in DOMAIN V.ins } \cup { V.dflt }
Unterminated(kind, V) == IF kind = "bank" THEN \E I \in InsOf(V) : Len(CStr(Pad(I[1], 32))) = 32 ELSE Len(CStr(Pad(V.I[1], 32))) = 32

---------------------------------------------------------------------------
StepInit(ev) ==
  /\ st' = St0 /\ exec' = exec + 1 /\ fails' = fails /\ drift' = drift
  /\ cnt' = [cnt EXCEPT !.execs = @ + 1]

\* bank / inst / adopt: a new current value
StepValue(ev) ==
  LET kind == IF ev.o = "bank" THEN "bank" ELSE IF ev.o = "inst" THEN "inst" ELSE st.kind
      V == ev.v
      f == Lbl(\A ver \in {1, 2} : ev.sz[ver] >= EncOf(kind, V, ver), "size")
      built == IF ev.o = "bank"
               THEN /\ V.ver = ev.ver /\ V.nm = ev.nm /\ V.np = ev.np /\ V.lfo = ev.lfo /\ V.chip = ev.chip /\ V.vm = ev.vm
                    /\ LET C == [V EXCEPT !.dflt = ev.dflt, !.ins = ev.ins] IN InsDiff(V, C) = {} /\ (DfltUsed(V, C) => V.dflt = C.dflt)
                    /\ \A k \in DOMAIN ev.banks : LET r == ev.banks[k] IN
                          V.banks[(IF r[1] = 0 THEN 0 ELSE V.nm) + r[2] + 1] = << Trim(r[3]), r[4], r[5] >>
               ELSE IF ev.o = "inst" THEN V.ver = ev.ver /\ V.drum = ev.drum /\ V.I = << Trim(ev.I[1]) >> \o SubSeq(ev.I, 2, 7) \o << Trim(ev.I[8]) >> \o SubSeq(ev.I, 9, 10)
               ELSE st.hasL /\ (IF kind = "bank" THEN ValEq(V, st.L) ELSE V = st.L)
      d == Lbl(\A ver \in {1, 2} : ev.sz[ver] = CalcOf(kind, V, ver), "calcsize") \cup Lbl(built, "build")
  IN /\ st' = [st EXCEPT !.kind = kind, !.W = V, !.sz = ev.sz, !.adopted = (ev.o = "adopt"), !.apat = (ev.o = "adopt" /\ ~st.clean)]
     /\ exec' = exec
     /\ fails' = AddFails(Tag("C15", f, ev, ""))
     /\ drift' = AddDrift(d, ev)
     /\ cnt' = [cnt EXCEPT !.steps = @ + 1, !.banks = @ + B(ev.o = "bank"), !.insts = @ + B(ev.o = "inst"), !.adopts = @ + B(ev.o = "adopt"),
                           !.sizes = @ + 2, !.slack = @ + B(\E ver \in {1, 2} : ev.sz[ver] > EncOf(kind, V, ver)),
                           !.unterminated = @ + B(Unterminated(kind, V)),
                           !.bigbanks = @ + B(kind = "bank" /\ (V.nm >= 64 \/ V.np >= 64)),
                           !.refined = @ + 1, !.drifted = @ + B(d # {})]

StepSave(ev) ==
  LET V == st.W
      enc == EncOf(st.kind, V, ev.pv)
      calc == st.sz[Eff(ev.pv)]
      m == IF IsBank THEN SaveWalk(V.nm, V.np, ev.pv, ev.n) ELSE SaveInstWalk(ev.pv, ev.n)
      f == Lbl(ev.hw <= ev.n, "overrun")
           \cup Lbl(ev.n < enc => ev.r # 0, "refuse")
           \cup Lbl(ev.n >= calc => ev.r = 0, "save-fails")
           \cup Lbl(ev.det = 1, "nondeterministic")
      kept == ev.r = 0 /\ ev.hw <= ev.n /\ ev.n > 0
      hasimg == Has(ev, "img")
      d == Lbl(m.r = ev.r, "savecode") \cup Lbl(m.hw = ev.hw, "written")
           \cup Lbl(hasimg => SubSeq(ev.img, 1, enc) = (IF IsBank THEN EncodeBank(V, ev.pv) ELSE EncodeInst(V, ev.pv)), "bytes")
  IN /\ st' = IF kept THEN [st EXCEPT !.clean = TRUE, !.iv = ev.pv, !.isrc = V, !.iad = st.adopted, !.ipat = st.apat, !.in = ev.n,
                                      !.hasb = hasimg, !.ib = IF hasimg THEN ev.img ELSE <<>>]
              ELSE st
     /\ exec' = exec
     /\ fails' = AddFails(Tag("C15", f, ev, ToString(<<ev.pv, ev.n, ev.r, ev.hw, enc, calc>>)))
     /\ drift' = AddDrift(d, ev)
     /\ cnt' = [cnt EXCEPT !.steps = @ + 1, !.saves = @ + 1, !.saves_ok = @ + B(ev.r = 0), !.undersized = @ + B(ev.n < enc),
                           !.fullsize = @ + B(ev.n >= calc), !.footprint = @ + 1, !.enc_bytes = @ + B(hasimg),
                           !.refined = @ + 1, !.drifted = @ + B(d # {})]

\* patch / raw: the image is no longer the result of a save
StepImage(ev) ==
  LET kind == IF ev.o = "raw" THEN ev.kind ELSE st.kind
      hasb == IF ev.o = "raw" THEN TRUE ELSE Has(ev, "img")
      bytes == IF ev.o = "raw" THEN ev.bytes ELSE IF hasb THEN ev.img ELSE <<>>
  IN /\ st' = [st EXCEPT !.kind = kind, !.clean = FALSE, !.in = ev.n, !.hasb = hasb, !.ib = bytes]
     /\ exec' = exec /\ fails' = fails /\ drift' = drift
     /\ cnt' = [cnt EXCEPT !.steps = @ + 1]

StepLoad(ev) ==
  LET bank == ev.k = "bank"
      ok == ev.ok = 1
      walk == IF bank THEN LoadWalk(ev.hdr, ev.n) ELSE LoadInstWalk(ev.hdr, ev.n)
      fill == IF Has(ev, "fill") THEN ev.fill ELSE 0
      \* loader half of C02: a defined result, success exactly when a value is returned, the API agrees
      f2 == Lbl(ev.r \in 0..6 /\ (ok <=> ev.r = 0), "defined-result")
            \cup Lbl(Has(ev, "ar") => (ev.ar \in {0, -1} /\ ((ev.ar = 0) <=> ok)), "api-result")
      whole == st.clean /\ ev.n >= EncOf(st.kind, st.isrc, st.iv)
      rt == whole /\ ~st.iad
      idn == whole /\ st.iad /\ st.iv = st.isrc.ver
      src == st.isrc
      f == (IF whole THEN Lbl(ok, "load-fails") ELSE {})
           \cup (IF rt /\ ok THEN (IF bank THEN RtBankLabels(src, st.iv, ev.w) ELSE Lbl(InstEq(ev.w, ExpInst(src, st.iv)), "roundtrip")) ELSE {})
           \cup (IF idn /\ ok THEN (IF bank THEN IdBankLabels(src, ev.w)
                                   ELSE IF InstEq(ev.w, src) THEN {} ELSE IF src.ver = 0 THEN {"id-version0"} ELSE {"identity"}) ELSE {})
      dec == IF st.hasb /\ Len(st.ib) >= ev.n THEN (IF bank THEN DecodeBank(st.ib, ev.n) ELSE DecodeInst(st.ib, ev.n, <<fill * 257, fill * 257>>)) ELSE [r |-> -1]
      d == Lbl(walk.r = ev.r, "loadcode")
           \cup Lbl(dec.r = -1 \/ (dec.r = ev.r /\ (ok => (IF bank THEN DenseEq(dec.v, ev.w) ELSE dec.v = ev.w))), "decode")
      nins == IF rt /\ ok /\ bank THEN Cardinality(Listed(src) \cup Listed(ev.w)) + 1 ELSE IF rt /\ ok THEN 1 ELSE 0
      limb == rt /\ ok /\ bank /\ st.iv = 2 /\ \E I \in InsOf(src) : IsBlank(I) /\ (I[9] # 0 \/ I[10] # 0)
      limz == rt /\ ok /\ bank /\ st.iv = 2 /\ \E I \in InsOf(src) : ~IsBlank(I) /\ I[9] = 0 /\ I[10] = 0
      zc == ok /\ bank /\ walk.r = 0 /\ (walk.cm = 0 \/ walk.cp = 0)
  IN /\ st' = [st EXCEPT !.hasL = ok, !.L = IF ok THEN ev.w ELSE <<>>]
     /\ exec' = exec
     /\ fails' = AddFails(Tag("C15", f, ev, ToString(<<st.iv, ev.n, ev.r>>)) \cup Tag("C02", f2, ev, ToString(<<ev.n, ev.r, ev.ok>>)))
     /\ drift' = AddDrift(d, ev)
     /\ cnt' = [cnt EXCEPT !.steps = @ + 1, !.loads = @ + 1, !.loads_ok = @ + B(ok), !.loads_rejected = @ + B(~ok),
                           !.truncated_clean = @ + B(st.clean /\ ~whole),
                           !.rt_bank_v1 = @ + B(rt /\ bank /\ Eff(st.iv) = 1), !.rt_bank_v2 = @ + B(rt /\ bank /\ Eff(st.iv) = 2),
                           !.rt_inst_v1 = @ + B(rt /\ ~bank /\ Eff(st.iv) = 1), !.rt_inst_v2 = @ + B(rt /\ ~bank /\ Eff(st.iv) = 2),
                           !.rt_instruments = @ + nins,
                           !.lim_blank_delay = @ + B(limb), !.lim_zero_delay = @ + B(limz),
                           !.identity = @ + B(idn /\ ok), !.identity_patched = @ + B(idn /\ ok /\ st.ipat), !.zero_count = @ + B(zc),
                           !.c02_loads = @ + 1, !.c02_api = @ + B(Has(ev, "ar")), !.dec_bytes = @ + B(dec.r # -1),
                           !.refined = @ + 1, !.drifted = @ + B(d # {})]

Next ==
  \/ /\ l <= Len(T) /\ l' = l + 1
     /\ LET ev == T[l] IN
        CASE ev.o = "init" -> StepInit(ev)
          [] ev.o = "adopt" /\ Has(ev, "skip") -> UNCHANGED <<st, fails, drift, exec>> /\ cnt' = [cnt EXCEPT !.steps = @ + 1]
          [] ev.o \in {"bank", "inst", "adopt"} -> StepValue(ev)
          [] ev.o = "save" -> StepSave(ev)
          [] ev.o \in {"patch", "raw"} -> StepImage(ev)
          [] ev.o = "load" -> StepLoad(ev)
          [] OTHER -> UNCHANGED <<st, fails, cnt, drift, exec>>
  \/ /\ l = Len(T) + 1 /\ l' = l + 1
     /\ PrintT(<<"RESULT", ToJson([n |-> Len(T), fails |-> fails, cnt |-> cnt, drift |-> drift])>>)
     /\ UNCHANGED <<st, fails, cnt, drift, exec>>
Spec == Init /\ [][Next]_vars
=============================================================================
