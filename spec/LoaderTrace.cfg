SPECIFICATION Spec
CONSTANT Repaired = FALSE
CHECK_DEADLOCK FALSE
