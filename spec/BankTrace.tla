------------------------------ MODULE BankTrace ------------------------------
(* C16: validation of recorded bank-API executions (harness/drive_bank) against the abstract map
   semantics (monitors) and against the concrete BankMap model (refinement: iteration order and
   capacity are predicted exactly). *)
EXTENDS BankMap, Json, IOUtils
T == ndJsonDeserialize(IOEnv.TRACE)
MaxPerLabel == 4            \* failures kept per (property, label) and chunk: a label that repeats on every step never hides another one
VARIABLES l, A, C, capb, fails, cnt, drift, exec
vars == <<l, A, C, capb, fails, cnt, drift, exec>>
Cnt0 == [steps |-> 0, execs |-> 0, creates |-> 0, rtok |-> 0, rtfull |-> 0, removes |-> 0, loads |-> 0, collisions |-> 0, badidx |-> 0,
         reuse |-> 0, grown |-> 0, readbacks |-> 0,
         inswrites |-> 0, blankdata |-> 0, blankover |-> 0, flagbits |-> 0, oversound |-> 0, fileins |-> 0, fileblankdata |-> 0, refined |-> 0, drifted |-> 0, maxsize |-> 0]
Init == l = 1 /\ A = <<>> /\ C = C0 /\ capb = 0 /\ fails = <<>> /\ cnt = Cnt0 /\ drift = <<>> /\ exec = 0

Tag(S, ev) == { [p |-> "C16", w |-> x, l |-> l, x |-> exec, e |-> ev.o, d |-> ""] : x \in S }
NKept(fs, p, w) == Cardinality({ i \in DOMAIN fs : fs[i].p = p /\ fs[i].w = w })
AddFailsTo(fs, S) == fs \o SetToSeq({ f \in S : NKept(fs, f.p, f.w) < MaxPerLabel })
AddFails(S) == IF S = {} THEN fails ELSE AddFailsTo(fails, S)
Lbl(c, s) == IF c THEN {} ELSE {s}

\* expected result on the abstract map; cap = capacity observed before the call
\* a bank file names instrument 0 of each of its banks (field "ins", absent = all 128 blank); the bank then holds what the
\* version-2 file format keeps of it (BankMap!WopnV2Ins)
HasIns(k) == "ins" \in DOMAIN k
FileVal(k) == IF HasIns(k) THEN <<<<0, WopnV2Ins(k.ins)>>>> ELSE BlankVal
RECURSIVE LoadKeys(_, _)
LoadKeys(A0, ks) == IF ks = <<>> THEN A0
                    ELSE LoadKeys(IF AHas(A0, ks[1].key) THEN [A0 EXCEPT ![AIdx(A0, ks[1].key)].val = FileVal(ks[1])]
                                  ELSE Append(A0, [key |-> ks[1].key, val |-> FileVal(ks[1])]), SubSeq(ks, 2, Len(ks)))
Expect(A0, cap, ev) ==
  CASE ev.o = "get" /\ ev.mode = "find"     -> [a |-> A0, r |-> IF AHas(A0, ev.key) THEN 0 ELSE -1]
    [] ev.o = "get" /\ ev.mode = "create"   -> [a |-> IF AHas(A0, ev.key) THEN A0 ELSE Append(A0, [key |-> ev.key, val |-> BlankVal]), r |-> 0]
    [] ev.o = "get" /\ ev.mode = "creatert" -> IF AHas(A0, ev.key) THEN [a |-> A0, r |-> 0]
                                               ELSE IF Len(A0) < cap THEN [a |-> Append(A0, [key |-> ev.key, val |-> BlankVal]), r |-> 0]
                                               ELSE [a |-> A0, r |-> -1]
    [] ev.o = "remove" -> IF AHas(A0, ev.key) THEN [a |-> RemoveAt(A0, AIdx(A0, ev.key)), r |-> 0] ELSE [a |-> A0, r |-> -1]
    \* instrument API: only the indices 0..127 exist; any other index is refused and NO bank changes (the look-ups, the
    \* iteration and the read-backs of every bank after the call are judged against the unchanged map)
    [] ev.o = "setins" -> IF AHas(A0, ev.key) /\ InsIdxOk(ev.idx) THEN [a |-> [A0 EXCEPT ![AIdx(A0, ev.key)].val = ValSet(@, ev.idx, ev.ins)], r |-> 0]
                          ELSE [a |-> A0, r |-> -1]
    [] ev.o = "getins" -> [a |-> A0, r |-> IF AHas(A0, ev.key) /\ InsIdxOk(ev.idx) THEN 0 ELSE -1]
    [] ev.o = "load"   -> IF ev.bad = 1 THEN [a |-> A0, r |-> -1] ELSE [a |-> LoadKeys(<<>>, ev.keys), r |-> 0]
    [] ev.o = "reserve" -> [a |-> A0, r |-> Max(cap, ev.n)]
    [] OTHER -> [a |-> A0, r |-> 0]

\* the same call on the concrete model
RECURSIVE ModelLoad(_, _)
ModelLoad(C1, ks) == IF ks = <<>> THEN C1
                     ELSE LET ir == Insert(C1, ks[1].key, TRUE) IN
                          ModelLoad([ir.c EXCEPT !.slots[ir.s].val = FileVal(ks[1])], SubSeq(ks, 2, Len(ks)))
ModelStep(C1, ev) ==
  IF ev.o = "load" THEN (IF ev.bad = 1 THEN C1 ELSE ModelLoad(Clear(C1), ev.keys))
  ELSE ApiStep(C1, ev).c

\* read-back monitor: EVERY field of what opn2_getInstrument returns (record <<bank key, index, 36 fields, version>>) equals
\* the instrument last written to that index of that bank - by opn2_setInstrument, by a bank file, or the blank instrument of
\* a new bank - whatever flags it carries and whatever the slot held before.  A1 = the abstract map after the call.
RbOK(A1, q) == AHas(A1, q[1]) /\ q[3] = ValGet(A1[AIdx(A1, q[1])].val, q[2]) /\ q[4] = 0
RbBad(A1, rb) == { i \in DOMAIN rb : ~RbOK(A1, rb[i]) }
\* which fields of the first wrong read-back differ (diagnostic text of the failure)
RbDetail(A1, q) ==
  IF ~AHas(A1, q[1]) THEN "bank " \o ToString(q[1]) \o " not in the map"
  ELSE LET want == ValGet(A1[AIdx(A1, q[1])].val, q[2]) IN
       "bank " \o ToString(q[1]) \o " ins " \o ToString(q[2]) \o (IF want[FFlags] = q[3][FFlags] /\ InsHasFlag(want, FlagBlank) THEN " (blank flag set)" ELSE "") \o " differs in " \o
       (IF Len(q[3]) # InsLen THEN "length" ELSE ToString({ InsFields[i] : i \in { j \in 1..InsLen : q[3][j] # want[j] } })) \o
       (IF q[4] # 0 THEN " version" ELSE "")
\* previous content of the slot a write addresses (A0 = map before the call)
PrevIns(A0, ev) == ValGet(A0[AIdx(A0, ev.key)].val, ev.idx)

StepInit(ev) ==
  /\ A' = <<>> /\ C' = C0 /\ capb' = 0 /\ exec' = exec + 1 /\ fails' = fails /\ drift' = drift
  /\ cnt' = [cnt EXCEPT !.execs = @ + 1]
StepOp(ev) ==
  LET ex == Expect(A, capb, ev)
      A1 == ex.a
      itset == { ev.it[i] : i \in DOMAIN ev.it }
      badIdx == ev.o \in {"setins", "getins"} /\ AHas(A, ev.key) /\ ~InsIdxOk(ev.idx)
      f == Lbl(ev.o = "reserve" \/ ev.r = ex.r, IF badIdx THEN "ins-index-accepted" ELSE "result")
           \cup Lbl(ev.o # "reserve" \/ (ev.r >= ev.n /\ ev.r = ev.cap), "reserve")
           \cup Lbl(\A i \in DOMAIN ev.find : (ev.find[i][2] = 1) <=> AHas(A1, ev.find[i][1]), "lookup")
           \cup Lbl(itset = AKeys(A1) /\ Len(ev.it) = Cardinality(itset), "iteration")
           \cup Lbl((ev.o = "get" /\ ev.mode = "creatert") => ev.na = 0 /\ ev.cap = capb, "rt-alloc")
           \cup Lbl(ev.cap >= Len(A1), "capacity")
      rbbad == RbBad(A1, ev.rb)
      frb == IF rbbad = {} THEN {}
             ELSE LET i == CHOOSE i \in rbbad : \A j \in rbbad : i <= j IN
                  { [p |-> "C16", w |-> "readback", l |-> l, x |-> exec, e |-> ev.o, d |-> RbDetail(A1, ev.rb[i])] }
      wr == ev.o = "setins" /\ ex.r = 0
      C1 == ModelStep(C, ev)
      d == Lbl(IterKeys(C1) = ev.it, "order") \cup Lbl(C1.cap = ev.cap, "cap")
  IN /\ A' = A1 /\ C' = C1 /\ capb' = ev.cap /\ exec' = exec
     /\ fails' = AddFails(Tag(f, ev) \cup frb)
     /\ drift' = IF d # {} /\ Len(drift) < 6 THEN Append(drift, [l |-> l, x |-> exec, e |-> ev.o, d |-> ToString(d)]) ELSE drift
     /\ cnt' = [cnt EXCEPT !.steps = @ + 1,
           !.creates = @ + (IF ev.o = "get" /\ ev.mode # "find" /\ ~AHas(A, ev.key) /\ AHas(A1, ev.key) THEN 1 ELSE 0),
           !.rtok = @ + (IF ev.o = "get" /\ ev.mode = "creatert" /\ ex.r = 0 THEN 1 ELSE 0),
           !.rtfull = @ + (IF ev.o = "get" /\ ev.mode = "creatert" /\ ex.r = -1 THEN 1 ELSE 0),
           !.removes = @ + (IF ev.o = "remove" /\ ex.r = 0 THEN 1 ELSE 0),
           !.loads = @ + (IF ev.o = "load" THEN 1 ELSE 0),
           !.badidx = @ + (IF ev.o \in {"setins", "getins"} /\ AHas(A, ev.key) /\ ~InsIdxOk(ev.idx) THEN 1 ELSE 0),
           !.collisions = @ + (IF \E i, j \in DOMAIN A1 : i # j /\ Hash(A1[i].key) = Hash(A1[j].key) THEN 1 ELSE 0),
           !.reuse = @ + (IF ev.o = "get" /\ ev.mode # "find" /\ ~AHas(A, ev.key) /\ C.free # 0 /\ C.slots[C.free].key = -1 /\ C.nalloc > 0 /\ C.size < Len(C.slots) /\ C.cap = capb THEN 1 ELSE 0),
           !.grown = @ + (IF ev.cap > capb THEN 1 ELSE 0),
           !.readbacks = @ + Len(ev.rb),
           \* non-vacuity of the flags x data x previous-content dimension
           !.inswrites = @ + (IF wr THEN 1 ELSE 0),
           !.blankdata = @ + (IF wr /\ InsHasFlag(ev.ins, FlagBlank) /\ ~InsDataZero(ev.ins) THEN 1 ELSE 0),
           !.blankover = @ + (IF wr /\ InsHasFlag(ev.ins, FlagBlank) /\ ~InsDataZero(ev.ins) /\ ~InsDataZero(PrevIns(A, ev)) /\ PrevIns(A, ev) # ev.ins THEN 1 ELSE 0),
           !.oversound = @ + (IF wr /\ ~InsHasFlag(PrevIns(A, ev), FlagBlank) /\ PrevIns(A, ev) # ev.ins THEN 1 ELSE 0),
           !.flagbits = @ + (IF wr /\ ev.ins[FFlags] \notin {0, FlagBlank} THEN 1 ELSE 0),
           !.fileins = @ + (IF ev.o = "load" /\ ev.bad = 0 THEN Cardinality({ i \in DOMAIN ev.keys : HasIns(ev.keys[i]) }) ELSE 0),
           !.fileblankdata = @ + (IF ev.o = "load" /\ ev.bad = 0 THEN Cardinality({ i \in DOMAIN ev.keys : HasIns(ev.keys[i]) /\ WopnV2Ins(ev.keys[i].ins)[FFlags] = FlagBlank /\ ~InsDataZero(ev.keys[i].ins) }) ELSE 0),
           !.refined = @ + 1, !.drifted = @ + (IF d # {} THEN 1 ELSE 0),
           !.maxsize = IF Len(A1) > @ THEN Len(A1) ELSE @]
Next ==
  \/ /\ l <= Len(T) /\ l' = l + 1
     /\ LET ev == T[l] IN
        CASE ev.o = "init" -> StepInit(ev)
          [] ev.o = "end" -> UNCHANGED <<A, C, capb, fails, cnt, drift, exec>>
          [] ev.o = "crash" -> /\ fails' = AddFails({[p |-> "CRASH", w |-> ev.stage, l |-> l, x |-> exec, e |-> "crash", d |-> ""]})
                               /\ UNCHANGED <<A, C, capb, cnt, drift, exec>>
          [] OTHER -> StepOp(ev)
  \/ /\ l = Len(T) + 1 /\ l' = l + 1
     /\ PrintT(<<"RESULT", ToJson([n |-> Len(T), fails |-> fails, cnt |-> cnt, drift |-> drift])>>)
     /\ UNCHANGED <<A, C, capb, fails, cnt, drift, exec>>
Spec == Init /\ [][Next]_vars
=============================================================================
