------------------------------ MODULE BankTrace ------------------------------
(* C16: validation of recorded bank-API executions (harness/drive_bank) against the abstract map
   semantics (monitors) and against the concrete BankMap model (refinement: iteration order and
   capacity are predicted exactly). *)
EXTENDS BankMap, Json, IOUtils
T == ndJsonDeserialize(IOEnv.TRACE)
MaxFails == 12
VARIABLES l, A, C, capb, fails, cnt, drift, exec
vars == <<l, A, C, capb, fails, cnt, drift, exec>>
Cnt0 == [steps |-> 0, execs |-> 0, creates |-> 0, rtok |-> 0, rtfull |-> 0, removes |-> 0, loads |-> 0, collisions |-> 0, badidx |-> 0,
         reuse |-> 0, grown |-> 0, readbacks |-> 0, refined |-> 0, drifted |-> 0, maxsize |-> 0]
Init == l = 1 /\ A = <<>> /\ C = C0 /\ capb = 0 /\ fails = <<>> /\ cnt = Cnt0 /\ drift = <<>> /\ exec = 0

Tag(S, ev) == { [p |-> "C16", w |-> x, l |-> l, x |-> exec, e |-> ev.o, d |-> ""] : x \in S }
AddFails(S) == IF Len(fails) >= MaxFails \/ S = {} THEN fails ELSE fails \o SetToSeq(S)
Lbl(c, s) == IF c THEN {} ELSE {s}

\* expected result on the abstract map; cap = capacity observed before the call
RECURSIVE LoadKeys(_, _)
LoadKeys(A0, ks) == IF ks = <<>> THEN A0
                    ELSE LoadKeys(IF AHas(A0, ks[1].key) THEN [A0 EXCEPT ![AIdx(A0, ks[1].key)].val = ValSet(@, 0, ks[1].tok)]
                                  ELSE Append(A0, [key |-> ks[1].key, val |-> <<<<0, ks[1].tok>>>>]), SubSeq(ks, 2, Len(ks)))
Expect(A0, cap, ev) ==
  CASE ev.o = "get" /\ ev.mode = "find"     -> [a |-> A0, r |-> IF AHas(A0, ev.key) THEN 0 ELSE -1]
    [] ev.o = "get" /\ ev.mode = "create"   -> [a |-> IF AHas(A0, ev.key) THEN A0 ELSE Append(A0, [key |-> ev.key, val |-> BlankVal]), r |-> 0]
    [] ev.o = "get" /\ ev.mode = "creatert" -> IF AHas(A0, ev.key) THEN [a |-> A0, r |-> 0]
                                               ELSE IF Len(A0) < cap THEN [a |-> Append(A0, [key |-> ev.key, val |-> BlankVal]), r |-> 0]
                                               ELSE [a |-> A0, r |-> -1]
    [] ev.o = "remove" -> IF AHas(A0, ev.key) THEN [a |-> RemoveAt(A0, AIdx(A0, ev.key)), r |-> 0] ELSE [a |-> A0, r |-> -1]
    \* instrument API: only the indices 0..127 exist; any other index is refused and NO bank changes (the look-ups, the
    \* iteration and the read-backs of every bank after the call are judged against the unchanged map)
    [] ev.o = "setins" -> IF AHas(A0, ev.key) /\ InsIdxOk(ev.idx) THEN [a |-> [A0 EXCEPT ![AIdx(A0, ev.key)].val = ValSet(@, ev.idx, ev.tok)], r |-> 0]
                          ELSE [a |-> A0, r |-> -1]
    [] ev.o = "getins" -> [a |-> A0, r |-> IF AHas(A0, ev.key) /\ InsIdxOk(ev.idx) THEN 0 ELSE -1]
    [] ev.o = "load"   -> IF ev.bad = 1 THEN [a |-> A0, r |-> -1] ELSE [a |-> LoadKeys(<<>>, ev.keys), r |-> 0]
    [] ev.o = "reserve" -> [a |-> A0, r |-> Max(cap, ev.n)]
    [] OTHER -> [a |-> A0, r |-> 0]

\* the same call on the concrete model
RECURSIVE ModelLoad(_, _)
ModelLoad(C1, ks) == IF ks = <<>> THEN C1
                     ELSE LET ir == Insert(C1, ks[1].key, TRUE) IN
                          ModelLoad([ir.c EXCEPT !.slots[ir.s].val = ValSet(@, 0, ks[1].tok)], SubSeq(ks, 2, Len(ks)))
ModelStep(C1, ev) ==
  IF ev.o = "load" THEN (IF ev.bad = 1 THEN C1 ELSE ModelLoad(Clear(C1), ev.keys))
  ELSE ApiStep(C1, ev).c

StepInit(ev) ==
  /\ A' = <<>> /\ C' = C0 /\ capb' = 0 /\ exec' = exec + 1 /\ fails' = fails /\ drift' = drift
  /\ cnt' = [cnt EXCEPT !.execs = @ + 1]
StepOp(ev) ==
  LET ex == Expect(A, capb, ev)
      A1 == ex.a
      itset == { ev.it[i] : i \in DOMAIN ev.it }
      badIdx == ev.o \in {"setins", "getins"} /\ AHas(A, ev.key) /\ ~InsIdxOk(ev.idx)
      f == Lbl(ev.o = "reserve" \/ ev.r = ex.r, IF badIdx THEN "ins-index-accepted" ELSE "result")
           \cup Lbl(ev.o # "reserve" \/ (ev.r >= ev.n /\ ev.r = ev.cap), "reserve")
           \cup Lbl(\A i \in DOMAIN ev.find : (ev.find[i][2] = 1) <=> AHas(A1, ev.find[i][1]), "lookup")
           \cup Lbl(itset = AKeys(A1) /\ Len(ev.it) = Cardinality(itset), "iteration")
           \cup Lbl(\A i \in DOMAIN ev.rb : LET q == ev.rb[i] IN
                      AHas(A1, q[1]) /\ q[3] = ValGet(A1[AIdx(A1, q[1])].val, q[2]) /\ q[4] = 1 /\ ((q[5] = 1) <=> (q[3] = 0)), "readback")
           \cup Lbl((ev.o = "get" /\ ev.mode = "creatert") => ev.na = 0 /\ ev.cap = capb, "rt-alloc")
           \cup Lbl(ev.cap >= Len(A1), "capacity")
      C1 == ModelStep(C, ev)
      d == Lbl(IterKeys(C1) = ev.it, "order") \cup Lbl(C1.cap = ev.cap, "cap")
  IN /\ A' = A1 /\ C' = C1 /\ capb' = ev.cap /\ exec' = exec
     /\ fails' = AddFails(Tag(f, ev))
     /\ drift' = IF d # {} /\ Len(drift) < 6 THEN Append(drift, [l |-> l, x |-> exec, e |-> ev.o, d |-> ToString(d)]) ELSE drift
     /\ cnt' = [cnt EXCEPT !.steps = @ + 1,
           !.creates = @ + (IF ev.o = "get" /\ ev.mode # "find" /\ ~AHas(A, ev.key) /\ AHas(A1, ev.key) THEN 1 ELSE 0),
           !.rtok = @ + (IF ev.o = "get" /\ ev.mode = "creatert" /\ ex.r = 0 THEN 1 ELSE 0),
           !.rtfull = @ + (IF ev.o = "get" /\ ev.mode = "creatert" /\ ex.r = -1 THEN 1 ELSE 0),
           !.removes = @ + (IF ev.o = "remove" /\ ex.r = 0 THEN 1 ELSE 0),
           !.loads = @ + (IF ev.o = "load" THEN 1 ELSE 0),
           !.badidx = @ + (IF ev.o \in {"setins", "getins"} /\ AHas(A, ev.key) /\ ~InsIdxOk(ev.idx) THEN 1 ELSE 0),
           !.collisions = @ + (IF \E i, j \in DOMAIN A1 : i # j /\ Hash(A1[i].key) = Hash(A1[j].key) THEN 1 ELSE 0),
           !.reuse = @ + (IF ev.o = "get" /\ ev.mode # "find" /\ ~AHas(A, ev.key) /\ C.free # 0 /\ C.slots[C.free].key = -1 /\ C.nalloc > 0 /\ C.size < Len(C.slots) /\ C.cap = capb THEN 1 ELSE 0),
           !.grown = @ + (IF ev.cap > capb THEN 1 ELSE 0),
           !.readbacks = @ + Len(ev.rb),
           !.refined = @ + 1, !.drifted = @ + (IF d # {} THEN 1 ELSE 0),
           !.maxsize = IF Len(A1) > @ THEN Len(A1) ELSE @]
Next ==
  \/ /\ l <= Len(T) /\ l' = l + 1
     /\ LET ev == T[l] IN
        CASE ev.o = "init" -> StepInit(ev)
          [] ev.o = "end" -> UNCHANGED <<A, C, capb, fails, cnt, drift, exec>>
          [] ev.o = "crash" -> /\ fails' = AddFails({[p |-> "CRASH", w |-> ev.stage, l |-> l, x |-> exec, e |-> "crash", d |-> ""]})
                               /\ UNCHANGED <<A, C, capb, cnt, drift, exec>>
          [] OTHER -> StepOp(ev)
  \/ /\ l = Len(T) + 1 /\ l' = l + 1
     /\ PrintT(<<"RESULT", ToJson([n |-> Len(T), fails |-> fails, cnt |-> cnt, drift |-> drift])>>)
     /\ UNCHANGED <<A, C, capb, fails, cnt, drift, exec>>
Spec == Init /\ [][Next]_vars
=============================================================================
