SPECIFICATION Spec
CONSTANT NINS = 128
CHECK_DEADLOCK FALSE
