------------------------------ MODULE LevelTrace ------------------------------
(* C11: validation of executions recorded by harness/drive_level.  The trace specification keeps
   the controls in force (volume model, switches, master volume, per-channel CC7/CC11/CC74/CC67,
   program), the sounding notes with the chip channel they were uploaded to, the last TL bytes that
   reached every chip channel and the previous observation of every (channel, key).  For every note
   a call has to re-level it
     (B) evaluates the property predicates of spec/Level.tla on the RECORDED bytes (range, zero =>
         carriers silent, modulators untouched, monotone along one axis, lower brightness never
         brightens) - failures go to `fails`;
     (C) compares the recorded bytes with ModelTL (exact transcription) - mismatches go to `drift`.
   A sweep record carries one entry per value of the swept control and is consumed point by point.
   Executions started with "rsxx" run in the EA-MUS music mode: the volume model in force is the one the library reports
   (the set-up is locked), and a NoteOn for a sounding key is a velocity update of that note (no new note, no key-on): the
   re-levelling is judged with the velocity of the re-strike, in particular monotone along the velocity.
   Executions started with "kon" also record every KEY-ON of a chip channel ([2, chip channel, the four TL
   registers in force, MIDI channel and key of the note it was keyed for, candidates]) and the sounding notes
   after every call ("al"); time passes in "gen" calls.  Every key-on - NoteOn, the turn the automatic arpeggio
   gives to a note that shares a chip channel, a re-trigger after a steal - is judged like a levelling: the
   registers in force are taken as the levels of the OWNER (Level.tla part 3) and must satisfy the predicates
   for the velocity of that note and the CC7 / CC11 / CC74 of its MIDI channel (zero => carriers silent,
   modulators, range; monotone / brightness against the last observation of every note) and equal LevelsOf. *)
EXTENDS Level, Json, IOUtils
T == ndJsonDeserialize(IOEnv.TRACE)
MaxFails == 12
MaxDrift == 6
VARIABLES l, pi, st, fails, cnt, drift, exec
vars == <<l, pi, st, fails, cnt, drift, exec>>

\* counters: a tuple during the fold (cheap to add), a record in the RESULT line
CntNames == <<"steps", "execs", "sweeps", "points", "touches", "bytes",
              "zero", "mod", "modchg", "mono", "mono_v", "mono_c", "mono_e", "mono_m",
              "mono_strict", "same", "bright", "bright_strict",
              "refined", "drifted", "vm1", "vm2", "vm3", "vm4", "vm5",
              "alg0", "alg1", "alg2", "alg3", "alg4", "alg5", "alg6", "alg7",
              "smod", "frb", "perc", "soft", "breduced", "multi", "noplay",
              "dmxvel_full", "dmxvol_full", "w9x_full", "sweeps128",
              "rsxx_execs", "restrikes", "gens", "kons", "kon_judged", "kon_skipped", "kon_shared", "kon_turns", "kon_zero", "kon_pairs", "kon_strict", "kon_drifted", "arp_execs">>
NC == Len(CntNames)
Cnt0 == [i \in 1..NC |-> 0] \o <<>>
\* d: a record with some of the counter names
\* (`\o <<>>` forces TLC to evaluate the otherwise lazy function constructor)
AddCnt(k, d) == LET dom == DOMAIN d IN [i \in 1..NC |-> IF CntNames[i] \in dom THEN k[i] + d[CntNames[i]] ELSE k[i]] \o <<>>
CntRecord(k) == [nm \in { CntNames[i] : i \in 1..NC } |-> k[CHOOSE i \in 1..NC : CntNames[i] = nm]]

Chan0 == [vol |-> 100, expr |-> 127, b |-> 127, soft |-> FALSE, prog |-> 0]
Cells0 == [dv |-> {}, dc |-> {}, w9 |-> {}]
St0 == [vm |-> 1, smod |-> FALSE, frb |-> FALSE, mv |-> 127, chans |-> [c \in 1..32 |-> Chan0] \o <<>>, notes |-> <<>>,
        rsxx |-> FALSE, kon |-> FALSE, held |-> <<>>, lev |-> [c \in 1..24 |-> <<-1, -1>>] \o <<>>,
        cur |-> [c \in 1..24 |-> <<>>] \o <<>>, mem |-> <<>>, banks |-> <<>>, cells |-> Cells0]

Init == l = 1 /\ pi = 0 /\ st = St0 /\ fails = <<>> /\ cnt = Cnt0 /\ drift = <<>> /\ exec = 0

RECURSIVE SeqOfSet(_)
SeqOfSet(S) == IF S = {} THEN <<>> ELSE LET x == CHOOSE y \in S : TRUE IN <<x>> \o SeqOfSet(S \ {x})
B2I(b) == IF b THEN 1 ELSE 0

\* instrument a NoteOn(ch, k) resolves to (bank 0 melodic by program / bank 0 percussive by key); i = -1: none
NoIns == [i |-> -1]
InsOf(s, ch, k) ==
  LET p == IF ch % 16 = 9 THEN 1 ELSE 0
      idx == IF ch % 16 = 9 THEN k ELSE s.chans[ch + 1].prog
      bi == FirstIdx(s.banks, LAMBDA bk : bk.p = p /\ bk.msb = 0 /\ bk.lsb = 0)
  IN IF bi = 0 THEN NoIns
     ELSE LET ii == FirstIdx(s.banks[bi].ins, LAMBDA r : r.i = idx) IN IF ii = 0 THEN NoIns ELSE s.banks[bi].ins[ii]

\* the controls a call changes
ApplyCtl(s, pc) ==
  CASE pc.o = "pc" -> [s EXCEPT !.chans[pc.ch + 1].prog = pc.p]
    [] pc.o = "cc" /\ pc.n = 7  -> [s EXCEPT !.chans[pc.ch + 1].vol = pc.v]
    [] pc.o = "cc" /\ pc.n = 11 -> [s EXCEPT !.chans[pc.ch + 1].expr = pc.v]
    [] pc.o = "cc" /\ pc.n = 74 -> [s EXCEPT !.chans[pc.ch + 1].b = pc.v]
    [] pc.o = "cc" /\ pc.n = 67 -> [s EXCEPT !.chans[pc.ch + 1].soft = (pc.v >= 64)]
    [] pc.o = "mv" -> [s EXCEPT !.mv = pc.v]
    \* (RSXX locks the set-up: the setter stores only; the model in force is the one the library reports in the record)
    [] pc.o = "set" /\ pc.s = "vm" -> [s EXCEPT !.vm = IF s.rsxx THEN pc.vmr ELSE pc.v]
    [] pc.o = "set" /\ pc.s = "smod" -> [s EXCEPT !.smod = (pc.v # 0)]
    [] pc.o = "set" /\ pc.s = "frb" -> [s EXCEPT !.frb = (pc.v # 0)]
    [] OTHER -> s

\* note bookkeeping: a NoteOn first releases (ch, k); the chip channel comes from the recorded patch upload
PatchOps(w) == SelectSeq(w, LAMBDA e : e[1] = 1)
TlOps(w) == SelectSeq(w, LAMBDA e : e[1] = 0)
(* A released percussion note (channel 9) lives on for its minimum life time (30 ms); the harness never
   advances time, so on channel 9 NoteOff and NoteOn with velocity 0 leave the note sounding. *)
(* RSXX: a NoteOn for a key that is sounding on the channel is a velocity update of that note (Level!RestrikeVel: the
   clamp with the instrument's offset, no soft-pedal reduction); the note keeps its chip channel and instrument. *)
Restrike(s, pc) == s.rsxx /\ pc.o = "on" /\ pc.v > 0 /\ \E i \in DOMAIN s.notes : s.notes[i].ch = pc.ch /\ s.notes[i].k = pc.k
RestrikeNotes(notes, pc) == [i \in DOMAIN notes |-> IF notes[i].ch = pc.ch /\ notes[i].k = pc.k THEN [notes[i] EXCEPT !.v = pc.v, !.soft = FALSE] ELSE notes[i]] \o <<>>
ApplyNotes(s, pc, w) ==
  CASE Restrike(s, pc) -> [s EXCEPT !.notes = RestrikeNotes(s.notes, pc)]
    [] pc.o = "off" -> IF pc.ch % 16 = 9 THEN s ELSE [s EXCEPT !.notes = SelectSeq(@, LAMBDA n : ~(n.ch = pc.ch /\ n.k = pc.k))]
    [] pc.o = "on" ->
         LET rest == SelectSeq(s.notes, LAMBDA n : ~(n.ch = pc.ch /\ n.k = pc.k))
             ins == InsOf(s, pc.ch, pc.k)
             P == PatchOps(w)
         IN IF pc.v = 0 THEN (IF pc.ch % 16 = 9 THEN s ELSE [s EXCEPT !.notes = rest])
            ELSE IF ins.i = -1 \/ P = <<>> THEN [s EXCEPT !.notes = rest]
            ELSE LET c == P[Len(P)][2]
                     nn == [ch |-> pc.ch, k |-> pc.k, v |-> pc.v, ins |-> ins, c |-> c, soft |-> s.chans[pc.ch + 1].soft, perc |-> (pc.ch % 16 = 9)]
                 IN [s EXCEPT !.notes = Append(SelectSeq(rest, LAMBDA n : n.c # c), nn)]
    [] OTHER -> s
(* Executions with recorded key-ons: `held` keeps every note from its NoteOn to its NoteOff with its own loudness
   inputs (velocity as sent, instrument, soft pedal at NoteOn), whatever happens to its chip channel; the harness
   tells who sounds where after the call (al = <<MIDI channel, key, chip channel>>...), which replaces the guess
   "a new note on chip channel c ended the others" that is only right while no channel is shared. *)
ApplyHeld(s, pc) ==
  CASE pc.o = "off" -> IF pc.ch % 16 = 9 THEN s ELSE [s EXCEPT !.held = SelectSeq(@, LAMBDA n : ~(n.ch = pc.ch /\ n.k = pc.k))]
    [] pc.o = "on" ->
         LET rest == SelectSeq(s.held, LAMBDA n : ~(n.ch = pc.ch /\ n.k = pc.k))
             ins == InsOf(s, pc.ch, pc.k)
         IN IF pc.v = 0 THEN (IF pc.ch % 16 = 9 THEN s ELSE [s EXCEPT !.held = rest])
            ELSE IF ins.i = -1 THEN [s EXCEPT !.held = rest]
            ELSE [s EXCEPT !.held = Append(rest, [ch |-> pc.ch, k |-> pc.k, v |-> pc.v, ins |-> ins, c |-> -1,
                                                  soft |-> s.chans[pc.ch + 1].soft, perc |-> (pc.ch % 16 = 9)])]
    [] OTHER -> s
HeldIdx(held, ch, k) == FirstIdx(held, LAMBDA n : n.ch = ch /\ n.k = k)
\* (operator arguments are evaluated once; a LET-bound value is re-evaluated for every element of a constructor that uses it)
AliveNotes2(held, known) == [i \in DOMAIN known |-> [held[known[i][1]] EXCEPT !.c = known[i][2]]] \o <<>>
AliveNotes1(held, pairs) == AliveNotes2(held, SelectSeq(pairs, LAMBDA q : q[1] # 0))
AliveNotes(held, al) == AliveNotes1(held, [i \in DOMAIN al |-> <<HeldIdx(held, al[i][1], al[i][2]), al[i][3]>>] \o <<>>)
\* hasAl = FALSE: the record carries no list of sounding notes (sweep points)
SyncNotes(s, hasAl, al) == IF ~s.kon \/ ~hasAl THEN s ELSE [s EXCEPT !.notes = AliveNotes(s.held, al)]
Alone(notes, n) == \A j \in DOMAIN notes : notes[j].c = n.c => (notes[j].ch = n.ch /\ notes[j].k = n.k)
\* a controller change re-levels every note of the channel; only a note that has its chip channel for itself is read back from it
Unshared(notes, tn) == SelectSeq(tn, LAMBDA n : Alone(notes, n))

\* the notes a call has to re-level
Touched(s, pc) ==
  CASE pc.o = "on" -> IF pc.v = 0 THEN <<>> ELSE SelectSeq(s.notes, LAMBDA n : n.ch = pc.ch /\ n.k = pc.k)
    [] pc.o = "cc" /\ pc.n \in {7, 11, 74} -> SelectSeq(s.notes, LAMBDA n : n.ch = pc.ch)
    [] pc.o = "mv" -> s.notes
    [] OTHER -> <<>>

RECURSIVE ApplyWrites(_, _)
ApplyWrites(cur, w) == IF w = <<>> THEN cur
                       ELSE LET e == Head(w) IN ApplyWrites(IF e[1] = 0 THEN [cur EXCEPT ![e[2] + 1] = <<e[3], e[4], e[5], e[6]>>] ELSE cur, Tail(w))

Obs(s, n, tl) == [vm |-> s.vm, smod |-> s.smod, frb |-> s.frb, perc |-> n.perc, alg |-> n.ins.fbalg % 8, itl |-> n.ins.tl,
                  veloff |-> n.ins.veloff, soft |-> n.soft, v |-> n.v, vol |-> s.chans[n.ch + 1].vol, expr |-> s.chans[n.ch + 1].expr,
                  mv |-> s.mv, b |-> s.chans[n.ch + 1].b, tl |-> tl, ch |-> n.ch, k |-> n.k]

NoteEval(s, n) ==
  LET o == Obs(s, n, s.cur[n.c + 1])
      qi == FirstIdx(s.mem, LAMBDA q : q.ch = n.ch /\ q.k = n.k)
      p == IF qi = 0 THEN o ELSE s.mem[qi]
  IN [o |-> o, p |-> p, hasp |-> (qi # 0), bad |-> Single(o) \cup (IF qi = 0 THEN {} ELSE Pair(p, o)), model |-> ModelTL(o)]

CarrierDiff(p, o) == \E i \in Carriers[o.alg + 1] : o.tl[i] # p.tl[i]
ModAltered(o) == \E i \in 1..4 : ~IsCarrier(o.alg, i) /\ o.tl[i] # o.itl[i]
TupleZero == Cnt0
AddTup(k, d) == [i \in 1..NC |-> k[i] + d[i]] \o <<>>
\* per-note classification, in the order of CntNames (positions 1..6, 19, 39.. are filled by the caller)
Flags(e) ==
  LET o == e.o
      mono == e.hasp /\ MonoApplies(e.p, o)
      da == IF mono THEN DiffAxes(e.p, o) ELSE {}
      same == e.hasp /\ SameCfg(e.p, o) /\ LoudEq(e.p, o) /\ e.p.b = o.b
      ba == e.hasp /\ BrightApplies(e.p, o)
  IN << 0, 0, 0, 0, 0, 0,
        B2I(ZeroApplies(o)), B2I(ModApplies(o)), B2I(~ModApplies(o) /\ ModAltered(o)),
        B2I(mono), B2I(da = {1}), B2I(da = {2}), B2I(da = {3}), B2I(da = {4}),
        B2I(mono /\ CarrierDiff(e.p, o)), B2I(same), B2I(ba), B2I(ba /\ e.p.tl # o.tl),
        0, B2I(e.model # o.tl),
        B2I(o.vm \in {0, 1}), B2I(o.vm = 2), B2I(o.vm = 3), B2I(o.vm = 4), B2I(o.vm = 5),
        B2I(o.alg = 0), B2I(o.alg = 1), B2I(o.alg = 2), B2I(o.alg = 3), B2I(o.alg = 4), B2I(o.alg = 5), B2I(o.alg = 6), B2I(o.alg = 7),
        B2I(o.smod), B2I(o.frb), B2I(o.perc), B2I(o.soft), B2I(BrightReduced(o)), 0, 0,
        0, 0, 0, 0,
        0, 0, 0, 0, 0, 0, 0, 0, 0, 0, 0, 0, 0 >>
RECURSIVE SumFlags(_, _, _)
RECURSIVE SumSeqN(_, _, _)
SumSeqN(t, i, a) == IF i > Len(t) THEN a ELSE SumSeqN(t, i + 1, a + t[i])
SumFlags(evs, i, accu) == IF i > Len(evs) THEN accu ELSE SumFlags(evs, i + 1, AddTup(accu, Flags(evs[i])))

---------------------------------------------------------------------------
(* Key-ons.  e = <<2, chip channel, tl40, tl44, tl48, tl4C, MIDI channel, key, candidates>>.  The owner's loudness
   inputs come from this specification's own record (held + the controls in force), never from the library. *)
KonOps(w) == SelectSeq(w, LAMBDA e : e[1] = 2)
PairsOf(mem, o) == UNION { Pair(mem[i], o) : i \in DOMAIN mem }
KonJudge(mem, o, c) ==
  LET bad == Single(o) \cup PairsOf(mem, o)
      qi == IF bad \cap {"monotone", "brightness"} = {} THEN 0 ELSE FirstIdx(mem, LAMBDA q : Pair(q, o) # {})
  IN [ok |-> TRUE, o |-> o, c |-> c, bad |-> bad, p |-> IF qi = 0 THEN <<>> ELSE Brief(mem[qi]), model |-> ModelTL(o),
      np |-> Cardinality({ i \in DOMAIN mem : MonoApplies(mem[i], o) }),
      ns |-> Cardinality({ i \in DOMAIN mem : MonoApplies(mem[i], o) /\ \E j \in Carriers[o.alg + 1] : o.tl[j] # mem[i].tl[j] })]
KonEval(s, mem, e) ==
  LET hi == IF e[9] = 1 THEN HeldIdx(s.held, e[7], e[8]) ELSE 0
  IN IF hi = 0 THEN [ok |-> FALSE, c |-> e[2]] ELSE KonJudge(mem, Obs(s, s.held[hi], <<e[3], e[4], e[5], e[6]>>), e[2])
\* hand-overs: consecutive key-ons of one chip channel for different notes
TurnsIn(q) == Cardinality({ i \in 2..Len(q) : <<q[i][7], q[i][8]>> # <<q[i - 1][7], q[i - 1][8]>> })
TurnsOn(K, c) == TurnsIn(SelectSeq(K, LAMBDA e : e[2] = c))
RECURSIVE SumTurns(_, _)
SumTurns(K, cs) == IF cs = {} THEN 0 ELSE LET c == CHOOSE x \in cs : TRUE IN TurnsOn(K, c) + SumTurns(K, cs \ {c})
SharedKons(K, notes) == Cardinality({ i \in DOMAIN K : Cardinality({ j \in DOMAIN notes : notes[j].c = K[i][2] }) > 1 })
(* The key-ons of one call: the controls do not change inside a call, so equal entries are judged once.
   Returns the failures, the drifts, the counters and the observations to remember (one per owner). *)
KonPhase4(notes, K, KS, ev, okI, name, ln, ex) ==
  LET F == UNION { { [p |-> "C11", w |-> lab, l |-> ln, x |-> ex, e |-> name,
                      d |-> ToString(<<"key-on of chip channel", ev[i].c, "for note", <<ev[i].o.ch, ev[i].o.k>>, "levels in force", Brief(ev[i].o), "old", ev[i].p>>)]
                      : lab \in ev[i].bad } : i \in okI }
      D == { [l |-> ln, x |-> ex, e |-> name, d |-> ToString(<<"key-on of chip channel", ev[i].c, "model", ev[i].model, "obs", Brief(ev[i].o), "note", <<ev[i].o.ch, ev[i].o.k>>>>)]
               : i \in { j \in okI : ev[j].model # ev[j].o.tl } }
      keep == { i \in okI : \A j \in okI : (j < i) => <<ev[j].o.ch, ev[j].o.k>> # <<ev[i].o.ch, ev[i].o.k>> }
      nj == Cardinality({ i \in DOMAIN K : \E j \in okI : KS[j] = K[i] })
  IN [F |-> F, D |-> D, owners |-> { <<ev[i].o.ch, ev[i].o.k>> : i \in okI }, obs |-> SeqOfSet({ ev[i].o : i \in keep }),
      k |-> [kons |-> Len(K), kon_judged |-> nj, kon_skipped |-> Len(K) - nj, kon_shared |-> SharedKons(K, notes),
             kon_turns |-> SumTurns(K, { K[i][2] : i \in DOMAIN K }),
             kon_zero |-> Cardinality({ i \in okI : ZeroApplies(ev[i].o) }),
             kon_pairs |-> SumSeqN([i \in DOMAIN ev |-> IF ev[i].ok THEN ev[i].np ELSE 0] \o <<>>, 1, 0),
             kon_strict |-> SumSeqN([i \in DOMAIN ev |-> IF ev[i].ok THEN ev[i].ns ELSE 0] \o <<>>, 1, 0),
             kon_drifted |-> Cardinality({ j \in okI : ev[j].model # ev[j].o.tl })]]
KonPhase3(notes, K, KS, ev, name, ln, ex) == KonPhase4(notes, K, KS, ev, { i \in DOMAIN ev : ev[i].ok }, name, ln, ex)
KonPhase2(s, mem, K, KS, name, ln, ex) == KonPhase3(s.notes, K, KS, [i \in DOMAIN KS |-> KonEval(s, mem, KS[i])] \o <<>>, name, ln, ex)
KonPhase(s, mem, K, name, ln, ex) == KonPhase2(s, mem, K, SeqOfSet({ K[i] : i \in DOMAIN K }), name, ln, ex)
(* Whom the registers of a chip channel were levelled for last (OpnChannel::levelled_for, Level.tla part 3 `lev`): the owner
   of the channel's last key-on in the call, else the last note of the call's re-levelling that sounds on it. *)
OwnerOf(e) == <<e[7], e[8]>>
MaxOf(S) == CHOOSE x \in S : \A y \in S : y <= x
LevOn(lev, tn0, K, c) ==
  LET ks == { i \in DOMAIN K : K[i][2] = c }
      ts == { i \in DOMAIN tn0 : tn0[i].c = c }
  IN IF ks # {} THEN OwnerOf(K[MaxOf(ks)]) ELSE IF ts # {} THEN <<tn0[MaxOf(ts)].ch, tn0[MaxOf(ts)].k>> ELSE lev[c + 1]
LevNext(lev, tn0, K) == IF tn0 = <<>> /\ K = <<>> THEN lev ELSE [c \in 1..24 |-> LevOn(lev, tn0, K, c - 1)] \o <<>>
\* the note the registers of K[i]'s chip channel are levelled for just before that key-on
LevBefore(lev, K, i) == LET js == { j \in 1..(i - 1) : K[j][2] = K[i][2] } IN IF js = {} THEN lev[K[i][2] + 1] ELSE OwnerOf(K[MaxOf(js)])
\* a re-pitch (mask Upd_Pitch alone) re-levels exactly the key-ons that find the registers levelled for another note (ChanRepitch)
TakeOvers(lev, K) == Cardinality({ i \in DOMAIN K : LevBefore(lev, K, i) # OwnerOf(K[i]) })
\* what to remember: the observations of this call replace the older ones of the same notes
MemNext(mem, tn, owners, newobs, kobs) ==
  SelectSeq(mem, LAMBDA q : ~(\E i \in DOMAIN tn : tn[i].ch = q.ch /\ tn[i].k = q.k) /\ <<q.ch, q.k>> \notin owners)
  \o newobs \o SelectSeq(kobs, LAMBDA o : ~\E i \in DOMAIN tn : tn[i].ch = o.ch /\ tn[i].k = o.k)
NoKons == [F |-> {}, D |-> {}, owners |-> {}, obs |-> <<>>, k |-> [kons |-> 0]]

(* One primitive call (pc) with its return value r and its recorded chip writes w.
   acc = [s, f, d, k]: state, failures, drifts, counters.  name = event name for the reports. *)
Prim(acc, pc, r, w, name, hasAl, al) ==
  LET s0 == ApplyCtl(acc.s, pc)
      s1 == SyncNotes(ApplyNotes(IF s0.kon THEN ApplyHeld(s0, pc) ELSE s0, pc, w), hasAl, al)
      s2 == [s1 EXCEPT !.cur = ApplyWrites(@, w)]
      tn0 == Touched(s2, pc)
      \* under congestion only a note that has its chip channel for itself can be read back after a controller change
      tn == IF s2.kon /\ pc.o # "on" THEN Unshared(s2.notes, tn0) ELSE tn0
      evs == [i \in DOMAIN tn |-> NoteEval(s2, tn[i])] \o <<>>
      tls == TlOps(w)
      K == IF s2.kon THEN KonOps(w) ELSE <<>>
      kp == IF K = <<>> THEN NoKons ELSE KonPhase(s2, s2.mem, K, name, l, exec)
      \* (B) property failures
      rangebad == { i \in DOMAIN tls : RangeBad(SubSeq(tls[i], 3, 6)) # {} }
      F == { [p |-> "C11", w |-> "range", l |-> l, x |-> exec, e |-> name, d |-> ToString(<<"write", tls[i]>>)] : i \in rangebad }
           \cup UNION { { [p |-> "C11", w |-> lab, l |-> l, x |-> exec, e |-> name,
                          d |-> ToString(<<"new", Brief(evs[i].o), "old", IF evs[i].hasp THEN Brief(evs[i].p) ELSE <<>>>>)]
                          : lab \in evs[i].bad \ {"range"} } : i \in DOMAIN evs }
           \cup kp.F
      \* (C) refinement
      created == pc.o = "on" /\ tn # <<>> /\ ~Restrike(acc.s, pc)
      \* expected TL updates: one per note the call re-levels (+ the patch upload of a new note); while time passes, one per
      \* key-on (every turn of the arpeggio re-levels the note it keys: ChanTick of Level.tla); a pitch bend keys every note of
      \* the MIDI channel and re-levels those whose chip channel was levelled for another note (ChanRepitch, /repo 5cd89c0)
      wantTl == IF pc.o = "gen" THEN Len(K) ELSE IF pc.o = "bend" THEN TakeOvers(s2.lev, K) ELSE Len(tn0) + B2I(created)
      D == { [l |-> l, x |-> exec, e |-> name, d |-> ToString(<<"model", evs[i].model, "obs", Brief(evs[i].o)>>)]
               : i \in { j \in DOMAIN evs : evs[j].model # evs[j].o.tl } }
           \cup (IF Len(tls) # wantTl
                 THEN { [l |-> l, x |-> exec, e |-> name, d |-> ToString(<<"expected TL updates", wantTl, "writes", SubSeq(w, 1, Min(Len(w), 12))>>)] } ELSE {})
           \cup (IF created /\ tls # <<>> /\ SubSeq(tls[1], 3, 6) # tn[1].ins.tl
                 THEN { [l |-> l, x |-> exec, e |-> name, d |-> ToString(<<"patch upload TL", tls[1], "instrument", tn[1].ins.tl>>)] } ELSE {})
           \cup (IF pc.o = "on" /\ pc.v > 0 /\ tn = <<>>
                 THEN { [l |-> l, x |-> exec, e |-> name, d |-> ToString(<<"note not played, r", r>>)] } ELSE {})
           \cup kp.D
      newobs == [i \in DOMAIN evs |-> evs[i].o] \o <<>>
      mem1 == MemNext(s2.mem, tn, kp.owners, newobs, kp.obs)
      cells1 == [dv |-> s2.cells.dv \cup { DmxVelCell(evs[i].o) : i \in { j \in DOMAIN evs : evs[j].o.vm = 3 } },
                 dc |-> s2.cells.dc \cup { DmxVolCell(evs[i].o) : i \in { j \in DOMAIN evs : evs[j].o.vm = 3 } },
                 w9 |-> s2.cells.w9 \cup { W9xCell(evs[i].o) : i \in { j \in DOMAIN evs : evs[j].o.vm = 5 } }]
      delta == SumFlags(evs, 1, [TupleZero EXCEPT ![5] = Len(evs), ![6] = 4 * Len(tls), ![19] = Len(evs), ![39] = B2I(Len(evs) > 1),
                                                    ![40] = B2I(pc.o = "on" /\ pc.v > 0 /\ tn = <<>>), ![46] = B2I(Restrike(acc.s, pc))])
  IN [s |-> IF s2.kon THEN [s2 EXCEPT !.mem = mem1, !.cells = cells1, !.lev = LevNext(s2.lev, tn0, K)] ELSE [s2 EXCEPT !.mem = mem1, !.cells = cells1],
      f |-> IF Len(acc.f) >= MaxFails \/ F = {} THEN acc.f ELSE acc.f \o SeqOfSet(F),
      d |-> IF Len(acc.d) >= MaxDrift \/ D = {} THEN acc.d ELSE acc.d \o SeqOfSet(D),
      k |-> IF K = <<>> THEN AddTup(acc.k, delta) ELSE AddCnt(AddTup(acc.k, delta), kp.k)]

\* a sweep: one primitive call per recorded point
SweepCall(ev, x) ==
  CASE ev.ax = "vel"    -> [o |-> "on", ch |-> ev.ch, k |-> ev.k, v |-> x]
    [] ev.ax = "vol"    -> [o |-> "cc", ch |-> ev.ch, n |-> 7, v |-> x]
    [] ev.ax = "expr"   -> [o |-> "cc", ch |-> ev.ch, n |-> 11, v |-> x]
    [] ev.ax = "bright" -> [o |-> "cc", ch |-> ev.ch, n |-> 74, v |-> x]
    [] ev.ax = "mv"     -> [o |-> "mv", v |-> x]
StepInit(ev) ==
  LET rs == "rsxx" \in DOMAIN ev /\ ev.rsxx # 0
      s0 == [St0 EXCEPT !.rsxx = rs, !.vm = IF rs THEN ev.vmr ELSE ev.vm, !.smod = (ev.smod # 0), !.frb = (ev.frb # 0), !.banks = ev.banks,
                        !.kon = ("kon" \in DOMAIN ev /\ ev.kon # 0)]
      want == IF rs THEN RsxxVolumeModel ELSE IF ev.vm = 0 THEN 1 ELSE ev.vm
      \* the RSXX set-up as the library reports it: music mode 4, two chips, the channel volume still at its default
      rsok == ~rs \/ (ev.mm = 4 /\ ev.nch = 2 /\ ev.cv = Chan0.vol)
  IN /\ st' = s0 /\ exec' = exec + 1 /\ fails' = fails
     /\ drift' = IF (ev.vmr # want \/ ~rsok) /\ Len(drift) < MaxDrift
                 THEN Append(drift, [l |-> l, x |-> exec + 1, e |-> "init", d |-> IF rsok THEN "volume model read back differs" ELSE "RSXX set-up differs"]) ELSE drift
     /\ cnt' = AddCnt(cnt, [execs |-> 1, arp_execs |-> B2I("arp" \in DOMAIN ev /\ ev.arp # 0), rsxx_execs |-> B2I(rs)])
StepOp(ev) ==
  LET acc0 == [s |-> st, f |-> fails, d |-> drift, k |-> cnt]
      acc1 == Prim(acc0, ev, ev.r, ev.w, ev.o, "al" \in DOMAIN ev, IF "al" \in DOMAIN ev THEN ev.al ELSE <<>>)
  IN /\ st' = acc1.s /\ fails' = acc1.f /\ drift' = acc1.d /\ exec' = exec
     /\ cnt' = AddCnt(acc1.k, [steps |-> 1, gens |-> B2I(ev.o = "gen")])
(* A sweep record is consumed one point per step (pi = number of points already consumed): a recursive
   fold over 128 points would make TLC's evaluation context 128 levels deep and every name lookup slow. *)
StepPoint(ev) ==
  LET np == Len(ev.pts)
      first == pi = 0
      acc0 == [s |-> IF first THEN [st EXCEPT !.cells = Cells0] ELSE st, f |-> fails, d |-> drift, k |-> cnt]
      pt == ev.pts[pi + 1]
      acc1 == IF np = 0 THEN acc0 ELSE Prim(acc0, SweepCall(ev, pt[1]), pt[2], pt[3], "sweep-" \o ev.ax, FALSE, <<>>)
      last == pi + 1 >= np
      cl == acc1.s.cells
  IN /\ st' = acc1.s /\ fails' = acc1.f /\ drift' = acc1.d /\ exec' = exec
     /\ l' = IF last THEN l + 1 ELSE l
     /\ pi' = IF last THEN 0 ELSE pi + 1
     /\ cnt' = IF last THEN AddCnt(acc1.k, [steps |-> 1, sweeps |-> 1, points |-> np, sweeps128 |-> B2I(np = 128),
                                            dmxvel_full |-> B2I(1..127 \subseteq cl.dv), dmxvol_full |-> B2I(0..127 \subseteq cl.dc),
                                            w9x_full |-> B2I(0..31 \subseteq cl.w9)])
                ELSE acc1.k
Next ==
  \/ /\ l <= Len(T)
     /\ LET ev == T[l] IN
        CASE ev.o = "init" -> l' = l + 1 /\ pi' = 0 /\ StepInit(ev)
          [] ev.o = "end" -> l' = l + 1 /\ pi' = 0 /\ UNCHANGED <<st, fails, cnt, drift, exec>>
          [] ev.o = "sweep" -> StepPoint(ev)
          [] OTHER -> l' = l + 1 /\ pi' = 0 /\ StepOp(ev)
  \/ /\ l = Len(T) + 1 /\ l' = l + 1 /\ pi' = 0
     /\ PrintT(<<"RESULT", ToJson([n |-> Len(T), fails |-> fails, cnt |-> CntRecord(cnt), drift |-> drift])>>)
     /\ UNCHANGED <<st, fails, cnt, drift, exec>>
Spec == Init /\ [][Next]_vars
=============================================================================
