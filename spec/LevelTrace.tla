------------------------------ MODULE LevelTrace ------------------------------
(* C11: validation of executions recorded by harness/drive_level.  The trace specification keeps
   the controls in force (volume model, switches, master volume, per-channel CC7/CC11/CC74/CC67,
   program), the sounding notes with the chip channel they were uploaded to, the last TL bytes that
   reached every chip channel and the previous observation of every (channel, key).  For every note
   a call has to re-level it
     (B) evaluates the property predicates of spec/Level.tla on the RECORDED bytes (range, zero =>
         carriers silent, modulators untouched, monotone along one axis, lower brightness never
         brightens) - failures go to `fails`;
     (C) compares the recorded bytes with ModelTL (exact transcription) - mismatches go to `drift`.
   A sweep record carries one entry per value of the swept control and is consumed point by point. *)
EXTENDS Level, Json, IOUtils
T == ndJsonDeserialize(IOEnv.TRACE)
MaxFails == 12
MaxDrift == 6
VARIABLES l, pi, st, fails, cnt, drift, exec
vars == <<l, pi, st, fails, cnt, drift, exec>>

\* counters: a tuple during the fold (cheap to add), a record in the RESULT line
CntNames == <<"steps", "execs", "sweeps", "points", "touches", "bytes",
              "zero", "mod", "modchg", "mono", "mono_v", "mono_c", "mono_e", "mono_m",
              "mono_strict", "same", "bright", "bright_strict",
              "refined", "drifted", "vm1", "vm2", "vm3", "vm4", "vm5",
              "alg0", "alg1", "alg2", "alg3", "alg4", "alg5", "alg6", "alg7",
              "smod", "frb", "perc", "soft", "breduced", "multi", "noplay",
              "dmxvel_full", "dmxvol_full", "w9x_full", "sweeps128">>
NC == Len(CntNames)
Cnt0 == [i \in 1..NC |-> 0] \o <<>>
\* d: a record with some of the counter names
\* (`\o <<>>` forces TLC to evaluate the otherwise lazy function constructor)
AddCnt(k, d) == LET dom == DOMAIN d IN [i \in 1..NC |-> IF CntNames[i] \in dom THEN k[i] + d[CntNames[i]] ELSE k[i]] \o <<>>
CntRecord(k) == [nm \in { CntNames[i] : i \in 1..NC } |-> k[CHOOSE i \in 1..NC : CntNames[i] = nm]]

Chan0 == [vol |-> 100, expr |-> 127, b |-> 127, soft |-> FALSE, prog |-> 0]
Cells0 == [dv |-> {}, dc |-> {}, w9 |-> {}]
St0 == [vm |-> 1, smod |-> FALSE, frb |-> FALSE, mv |-> 127, chans |-> [c \in 1..32 |-> Chan0] \o <<>>, notes |-> <<>>,
        cur |-> [c \in 1..24 |-> <<>>] \o <<>>, mem |-> <<>>, banks |-> <<>>, cells |-> Cells0]

Init == l = 1 /\ pi = 0 /\ st = St0 /\ fails = <<>> /\ cnt = Cnt0 /\ drift = <<>> /\ exec = 0

RECURSIVE SeqOfSet(_)
SeqOfSet(S) == IF S = {} THEN <<>> ELSE LET x == CHOOSE y \in S : TRUE IN <<x>> \o SeqOfSet(S \ {x})
B2I(b) == IF b THEN 1 ELSE 0

\* instrument a NoteOn(ch, k) resolves to (bank 0 melodic by program / bank 0 percussive by key); i = -1: none
NoIns == [i |-> -1]
InsOf(s, ch, k) ==
  LET p == IF ch % 16 = 9 THEN 1 ELSE 0
      idx == IF ch % 16 = 9 THEN k ELSE s.chans[ch + 1].prog
      bi == FirstIdx(s.banks, LAMBDA bk : bk.p = p /\ bk.msb = 0 /\ bk.lsb = 0)
  IN IF bi = 0 THEN NoIns
     ELSE LET ii == FirstIdx(s.banks[bi].ins, LAMBDA r : r.i = idx) IN IF ii = 0 THEN NoIns ELSE s.banks[bi].ins[ii]

\* the controls a call changes
ApplyCtl(s, pc) ==
  CASE pc.o = "pc" -> [s EXCEPT !.chans[pc.ch + 1].prog = pc.p]
    [] pc.o = "cc" /\ pc.n = 7  -> [s EXCEPT !.chans[pc.ch + 1].vol = pc.v]
    [] pc.o = "cc" /\ pc.n = 11 -> [s EXCEPT !.chans[pc.ch + 1].expr = pc.v]
    [] pc.o = "cc" /\ pc.n = 74 -> [s EXCEPT !.chans[pc.ch + 1].b = pc.v]
    [] pc.o = "cc" /\ pc.n = 67 -> [s EXCEPT !.chans[pc.ch + 1].soft = (pc.v >= 64)]
    [] pc.o = "mv" -> [s EXCEPT !.mv = pc.v]
    [] pc.o = "set" /\ pc.s = "vm" -> [s EXCEPT !.vm = pc.v]
    [] pc.o = "set" /\ pc.s = "smod" -> [s EXCEPT !.smod = (pc.v # 0)]
    [] pc.o = "set" /\ pc.s = "frb" -> [s EXCEPT !.frb = (pc.v # 0)]
    [] OTHER -> s

\* note bookkeeping: a NoteOn first releases (ch, k); the chip channel comes from the recorded patch upload
PatchOps(w) == SelectSeq(w, LAMBDA e : e[1] = 1)
TlOps(w) == SelectSeq(w, LAMBDA e : e[1] = 0)
(* A released percussion note (channel 9) lives on for its minimum life time (30 ms); the harness never
   advances time, so on channel 9 NoteOff and NoteOn with velocity 0 leave the note sounding. *)
ApplyNotes(s, pc, w) ==
  CASE pc.o = "off" -> IF pc.ch % 16 = 9 THEN s ELSE [s EXCEPT !.notes = SelectSeq(@, LAMBDA n : ~(n.ch = pc.ch /\ n.k = pc.k))]
    [] pc.o = "on" ->
         LET rest == SelectSeq(s.notes, LAMBDA n : ~(n.ch = pc.ch /\ n.k = pc.k))
             ins == InsOf(s, pc.ch, pc.k)
             P == PatchOps(w)
         IN IF pc.v = 0 THEN (IF pc.ch % 16 = 9 THEN s ELSE [s EXCEPT !.notes = rest])
            ELSE IF ins.i = -1 \/ P = <<>> THEN [s EXCEPT !.notes = rest]
            ELSE LET c == P[Len(P)][2]
                     nn == [ch |-> pc.ch, k |-> pc.k, v |-> pc.v, ins |-> ins, c |-> c, soft |-> s.chans[pc.ch + 1].soft, perc |-> (pc.ch % 16 = 9)]
                 IN [s EXCEPT !.notes = Append(SelectSeq(rest, LAMBDA n : n.c # c), nn)]
    [] OTHER -> s
\* the notes a call has to re-level
Touched(s, pc) ==
  CASE pc.o = "on" -> IF pc.v = 0 THEN <<>> ELSE SelectSeq(s.notes, LAMBDA n : n.ch = pc.ch /\ n.k = pc.k)
    [] pc.o = "cc" /\ pc.n \in {7, 11, 74} -> SelectSeq(s.notes, LAMBDA n : n.ch = pc.ch)
    [] pc.o = "mv" -> s.notes
    [] OTHER -> <<>>

RECURSIVE ApplyWrites(_, _)
ApplyWrites(cur, w) == IF w = <<>> THEN cur
                       ELSE LET e == Head(w) IN ApplyWrites(IF e[1] = 0 THEN [cur EXCEPT ![e[2] + 1] = <<e[3], e[4], e[5], e[6]>>] ELSE cur, Tail(w))

Obs(s, n, tl) == [vm |-> s.vm, smod |-> s.smod, frb |-> s.frb, perc |-> n.perc, alg |-> n.ins.fbalg % 8, itl |-> n.ins.tl,
                  veloff |-> n.ins.veloff, soft |-> n.soft, v |-> n.v, vol |-> s.chans[n.ch + 1].vol, expr |-> s.chans[n.ch + 1].expr,
                  mv |-> s.mv, b |-> s.chans[n.ch + 1].b, tl |-> tl, ch |-> n.ch, k |-> n.k]

NoteEval(s, n) ==
  LET o == Obs(s, n, s.cur[n.c + 1])
      qi == FirstIdx(s.mem, LAMBDA q : q.ch = n.ch /\ q.k = n.k)
      p == IF qi = 0 THEN o ELSE s.mem[qi]
  IN [o |-> o, p |-> p, hasp |-> (qi # 0), bad |-> Single(o) \cup (IF qi = 0 THEN {} ELSE Pair(p, o)), model |-> ModelTL(o)]

CarrierDiff(p, o) == \E i \in Carriers[o.alg + 1] : o.tl[i] # p.tl[i]
ModAltered(o) == \E i \in 1..4 : ~IsCarrier(o.alg, i) /\ o.tl[i] # o.itl[i]
TupleZero == Cnt0
AddTup(k, d) == [i \in 1..NC |-> k[i] + d[i]] \o <<>>
\* per-note classification, in the order of CntNames (positions 1..6, 19, 39.. are filled by the caller)
Flags(e) ==
  LET o == e.o
      mono == e.hasp /\ MonoApplies(e.p, o)
      da == IF mono THEN DiffAxes(e.p, o) ELSE {}
      same == e.hasp /\ SameCfg(e.p, o) /\ LoudEq(e.p, o) /\ e.p.b = o.b
      ba == e.hasp /\ BrightApplies(e.p, o)
  IN << 0, 0, 0, 0, 0, 0,
        B2I(ZeroApplies(o)), B2I(ModApplies(o)), B2I(~ModApplies(o) /\ ModAltered(o)),
        B2I(mono), B2I(da = {1}), B2I(da = {2}), B2I(da = {3}), B2I(da = {4}),
        B2I(mono /\ CarrierDiff(e.p, o)), B2I(same), B2I(ba), B2I(ba /\ e.p.tl # o.tl),
        0, B2I(e.model # o.tl),
        B2I(o.vm \in {0, 1}), B2I(o.vm = 2), B2I(o.vm = 3), B2I(o.vm = 4), B2I(o.vm = 5),
        B2I(o.alg = 0), B2I(o.alg = 1), B2I(o.alg = 2), B2I(o.alg = 3), B2I(o.alg = 4), B2I(o.alg = 5), B2I(o.alg = 6), B2I(o.alg = 7),
        B2I(o.smod), B2I(o.frb), B2I(o.perc), B2I(o.soft), B2I(BrightReduced(o)), 0, 0,
        0, 0, 0, 0 >>
RECURSIVE SumFlags(_, _, _)
SumFlags(evs, i, accu) == IF i > Len(evs) THEN accu ELSE SumFlags(evs, i + 1, AddTup(accu, Flags(evs[i])))

(* One primitive call (pc) with its return value r and its recorded chip writes w.
   acc = [s, f, d, k]: state, failures, drifts, counters.  name = event name for the reports. *)
Prim(acc, pc, r, w, name) ==
  LET s1 == ApplyNotes(ApplyCtl(acc.s, pc), pc, w)
      s2 == [s1 EXCEPT !.cur = ApplyWrites(@, w)]
      tn == Touched(s2, pc)
      evs == [i \in DOMAIN tn |-> NoteEval(s2, tn[i])] \o <<>>
      tls == TlOps(w)
      \* (B) property failures
      rangebad == { i \in DOMAIN tls : RangeBad(SubSeq(tls[i], 3, 6)) # {} }
      F == { [p |-> "C11", w |-> "range", l |-> l, x |-> exec, e |-> name, d |-> ToString(<<"write", tls[i]>>)] : i \in rangebad }
           \cup UNION { { [p |-> "C11", w |-> lab, l |-> l, x |-> exec, e |-> name,
                          d |-> ToString(<<"new", Brief(evs[i].o), "old", IF evs[i].hasp THEN Brief(evs[i].p) ELSE <<>>>>)]
                          : lab \in evs[i].bad \ {"range"} } : i \in DOMAIN evs }
      \* (C) refinement
      created == pc.o = "on" /\ tn # <<>>
      D == { [l |-> l, x |-> exec, e |-> name, d |-> ToString(<<"model", evs[i].model, "obs", Brief(evs[i].o)>>)]
               : i \in { j \in DOMAIN evs : evs[j].model # evs[j].o.tl } }
           \cup (IF Len(tls) # Len(tn) + B2I(created)
                 THEN { [l |-> l, x |-> exec, e |-> name, d |-> ToString(<<"expected TL updates", Len(tn) + B2I(created), "writes", w>>)] } ELSE {})
           \cup (IF created /\ tls # <<>> /\ SubSeq(tls[1], 3, 6) # tn[1].ins.tl
                 THEN { [l |-> l, x |-> exec, e |-> name, d |-> ToString(<<"patch upload TL", tls[1], "instrument", tn[1].ins.tl>>)] } ELSE {})
           \cup (IF pc.o = "on" /\ pc.v > 0 /\ tn = <<>>
                 THEN { [l |-> l, x |-> exec, e |-> name, d |-> ToString(<<"note not played, r", r>>)] } ELSE {})
      newobs == [i \in DOMAIN evs |-> evs[i].o] \o <<>>
      mem1 == SelectSeq(s2.mem, LAMBDA q : ~\E i \in DOMAIN tn : tn[i].ch = q.ch /\ tn[i].k = q.k) \o newobs
      cells1 == [dv |-> s2.cells.dv \cup { DmxVelCell(evs[i].o) : i \in { j \in DOMAIN evs : evs[j].o.vm = 3 } },
                 dc |-> s2.cells.dc \cup { DmxVolCell(evs[i].o) : i \in { j \in DOMAIN evs : evs[j].o.vm = 3 } },
                 w9 |-> s2.cells.w9 \cup { W9xCell(evs[i].o) : i \in { j \in DOMAIN evs : evs[j].o.vm = 5 } }]
      delta == SumFlags(evs, 1, [TupleZero EXCEPT ![5] = Len(evs), ![6] = 4 * Len(tls), ![19] = Len(evs), ![39] = B2I(Len(evs) > 1),
                                                    ![40] = B2I(pc.o = "on" /\ pc.v > 0 /\ tn = <<>>)])
  IN [s |-> [s2 EXCEPT !.mem = mem1, !.cells = cells1],
      f |-> IF Len(acc.f) >= MaxFails \/ F = {} THEN acc.f ELSE acc.f \o SeqOfSet(F),
      d |-> IF Len(acc.d) >= MaxDrift \/ D = {} THEN acc.d ELSE acc.d \o SeqOfSet(D),
      k |-> AddTup(acc.k, delta)]

\* a sweep: one primitive call per recorded point
SweepCall(ev, x) ==
  CASE ev.ax = "vel"    -> [o |-> "on", ch |-> ev.ch, k |-> ev.k, v |-> x]
    [] ev.ax = "vol"    -> [o |-> "cc", ch |-> ev.ch, n |-> 7, v |-> x]
    [] ev.ax = "expr"   -> [o |-> "cc", ch |-> ev.ch, n |-> 11, v |-> x]
    [] ev.ax = "bright" -> [o |-> "cc", ch |-> ev.ch, n |-> 74, v |-> x]
    [] ev.ax = "mv"     -> [o |-> "mv", v |-> x]
StepInit(ev) ==
  LET s0 == [St0 EXCEPT !.vm = ev.vm, !.smod = (ev.smod # 0), !.frb = (ev.frb # 0), !.banks = ev.banks]
      want == IF ev.vm = 0 THEN 1 ELSE ev.vm
  IN /\ st' = s0 /\ exec' = exec + 1 /\ fails' = fails
     /\ drift' = IF ev.vmr # want /\ Len(drift) < MaxDrift THEN Append(drift, [l |-> l, x |-> exec + 1, e |-> "init", d |-> "volume model read back differs"]) ELSE drift
     /\ cnt' = AddCnt(cnt, [execs |-> 1])
StepOp(ev) ==
  LET acc0 == [s |-> st, f |-> fails, d |-> drift, k |-> cnt]
      acc1 == Prim(acc0, ev, ev.r, ev.w, ev.o)
  IN /\ st' = acc1.s /\ fails' = acc1.f /\ drift' = acc1.d /\ exec' = exec
     /\ cnt' = AddCnt(acc1.k, [steps |-> 1])
(* A sweep record is consumed one point per step (pi = number of points already consumed): a recursive
   fold over 128 points would make TLC's evaluation context 128 levels deep and every name lookup slow. *)
StepPoint(ev) ==
  LET np == Len(ev.pts)
      first == pi = 0
      acc0 == [s |-> IF first THEN [st EXCEPT !.cells = Cells0] ELSE st, f |-> fails, d |-> drift, k |-> cnt]
      pt == ev.pts[pi + 1]
      acc1 == IF np = 0 THEN acc0 ELSE Prim(acc0, SweepCall(ev, pt[1]), pt[2], pt[3], "sweep-" \o ev.ax)
      last == pi + 1 >= np
      cl == acc1.s.cells
  IN /\ st' = acc1.s /\ fails' = acc1.f /\ drift' = acc1.d /\ exec' = exec
     /\ l' = IF last THEN l + 1 ELSE l
     /\ pi' = IF last THEN 0 ELSE pi + 1
     /\ cnt' = IF last THEN AddCnt(acc1.k, [steps |-> 1, sweeps |-> 1, points |-> np, sweeps128 |-> B2I(np = 128),
                                            dmxvel_full |-> B2I(1..127 \subseteq cl.dv), dmxvol_full |-> B2I(0..127 \subseteq cl.dc),
                                            w9x_full |-> B2I(0..31 \subseteq cl.w9)])
                ELSE acc1.k
Next ==
  \/ /\ l <= Len(T)
     /\ LET ev == T[l] IN
        CASE ev.o = "init" -> l' = l + 1 /\ pi' = 0 /\ StepInit(ev)
          [] ev.o = "end" -> l' = l + 1 /\ pi' = 0 /\ UNCHANGED <<st, fails, cnt, drift, exec>>
          [] ev.o = "sweep" -> StepPoint(ev)
          [] OTHER -> l' = l + 1 /\ pi' = 0 /\ StepOp(ev)
  \/ /\ l = Len(T) + 1 /\ l' = l + 1 /\ pi' = 0
     /\ PrintT(<<"RESULT", ToJson([n |-> Len(T), fails |-> fails, cnt |-> CntRecord(cnt), drift |-> drift])>>)
     /\ UNCHANGED <<st, fails, cnt, drift, exec>>
Spec == Init /\ [][Next]_vars
=============================================================================
