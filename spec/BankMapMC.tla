------------------------------ MODULE BankMapMC ------------------------------
(* Exhaustive exploration of the bank map over a 6-key universe chosen to collide:
   melodic/percussive twins and MSB values of equal parity share a hash bucket. *)
EXTENDS BankMap, Json
CONSTANTS MaxDepth, InitCap, EmitDepth
VARIABLES C, A, bad, hist
vars == <<C, A, bad, hist>>
View == <<C, A, bad>>

Keys == <<0, 32768, 512, 1, 256, 33280>>      \* mel 0:0, perc 0:0, mel 2:0, mel 0:1, mel 1:0, perc 2:0
Ops == [i \in 1..6 |-> [o |-> "get", key |-> Keys[i], mode |-> "create"]] \o
       [i \in 1..6 |-> [o |-> "get", key |-> Keys[i], mode |-> "creatert"]] \o
       [i \in 1..6 |-> [o |-> "remove", key |-> Keys[i]]] \o
       [i \in 1..3 |-> [o |-> "setins", key |-> Keys[i], idx |-> 0, tok |-> i]] \o
       << [o |-> "reserve", n |-> 5], [o |-> "reserve", n |-> 9], [o |-> "clear"],
          [o |-> "get", key |-> 0, mode |-> "find"],
          [o |-> "setins", key |-> Keys[1], idx |-> 128, tok |-> 9] >>      \* first index past the end of a bank: rejected, nothing changes

Init == C = Reserve(C0, InitCap) /\ A = <<>> /\ bad = {} /\ hist = <<>>
Next == \E i \in DOMAIN Ops :
  LET op == Ops[i]
      \* removing / writing a bank needs a handle, i.e. the bank must exist (API contract)
      en == (op.o \in {"remove", "setins"}) => AHas(A, op.key)
      res == ApiStep(C, op)
      A1 == AbsStep(A, op, res.r)
  IN /\ en
     /\ C' = res.c /\ A' = A1 /\ hist' = Append(hist, i)
     /\ bad' = bad \cup (IF ListOK(res.c) THEN {} ELSE {"list"}) \cup (IF AbsOK(res.c, A1) THEN {} ELSE {"abs"})
                   \cup (IF RtOK(C, res.c, op, res.r) THEN {} ELSE {"rt"})
                   \cup (IF op.o = "get" /\ op.mode = "find" /\ ((res.r = 0) # AHas(A, op.key)) THEN {"find"} ELSE {})
                   \cup (IF op.o = "get" /\ op.mode = "create" /\ res.r # 0 THEN {"create"} ELSE {})
                   \cup (IF op.o = "setins" /\ ~InsIdxOk(op.idx) /\ (res.r # -1 \/ res.c # C \/ A1 # A) THEN {"insidx"} ELSE {})
Spec == Init /\ [][Next]_vars
NoBad == bad = {}
DepthBound == TLCGet("level") < MaxDepth
Emit == (Len(hist) = EmitDepth) => PrintT(<<"BEHAVIOUR", ToJson(hist)>>)
=============================================================================
