------------------------------ MODULE BankMapMC ------------------------------
(* Exhaustive exploration of the bank map over a 6-key universe chosen to collide:
   melodic/percussive twins and MSB values of equal parity share a hash bucket. *)
EXTENDS BankMap, Json
CONSTANTS MaxDepth, InitCap, EmitDepth
VARIABLES C, A, bad, hist
vars == <<C, A, bad, hist>>
View == <<C, A, bad>>

Keys == <<0, 32768, 512, 1, 256, 33280>>      \* mel 0:0, perc 0:0, mel 2:0, mel 0:1, mel 1:0, perc 2:0
\* instruments written: flag byte x voice data (d = 0: all data fields zero; lib/gen_bank.py mk_ins is the same formula)
MkIns(fl, d) ==
  IF d = 0 THEN [i \in 1..InsLen |-> IF i = FFlags THEN fl ELSE 0]
  ELSE <<d * 5 - 12, d - 2, 35 + d, fl, (d * 9) % 64, (d * 5) % 48>> \o [i \in 1..28 |-> (d * 11 + i * 7) % 128] \o <<100 + d, 50 + d>>
\* flags x data x previous slot content: bank Keys[1] is written with a sounding instrument and with a blank-flagged
\* instrument that carries voice data (in either order, over each other or into the untouched slot), Keys[2] with
\* blank + pseudo-8op and data, Keys[3] with every flag bit set and no data
SetOps == << [o |-> "setins", key |-> Keys[1], idx |-> 0, ins |-> MkIns(0, 1)],
             [o |-> "setins", key |-> Keys[1], idx |-> 0, ins |-> MkIns(FlagBlank, 2)],
             [o |-> "setins", key |-> Keys[2], idx |-> 0, ins |-> MkIns(FlagBlank + FlagPseudo8op, 3)],
             [o |-> "setins", key |-> Keys[3], idx |-> 0, ins |-> MkIns(255, 0)] >>
Ops == [i \in 1..6 |-> [o |-> "get", key |-> Keys[i], mode |-> "create"]] \o
       [i \in 1..6 |-> [o |-> "get", key |-> Keys[i], mode |-> "creatert"]] \o
       [i \in 1..6 |-> [o |-> "remove", key |-> Keys[i]]] \o
       SubSeq(SetOps, 1, 3) \o
       << [o |-> "reserve", n |-> 5], [o |-> "reserve", n |-> 9], [o |-> "clear"],
          [o |-> "get", key |-> 0, mode |-> "find"],
          [o |-> "setins", key |-> Keys[1], idx |-> 128, ins |-> MkIns(0, 9)] >> \o   \* first index past the end of a bank: rejected, nothing changes
       SubSeq(SetOps, 4, 4)
\* read-back clause of C16 on the model: after an accepted write the slot holds exactly the instrument written (every
\* field, whatever its flags and whatever was there before) and every other instrument of every bank is what it was
ReadBackOK(C0_, C1, op) ==
  LET s == BucketFind(C0_, op.key) IN
  /\ InsWellFormed(op.ins)
  /\ BucketFind(C1, op.key) = s
  /\ ValGet(C1.slots[s].val, op.idx) = op.ins
  /\ \A t \in DOMAIN C0_.slots : \A j \in {0, 1, 127} : (t # s \/ j # op.idx) => ValGet(C1.slots[t].val, j) = ValGet(C0_.slots[t].val, j)

Init == C = Reserve(C0, InitCap) /\ A = <<>> /\ bad = {} /\ hist = <<>>
Next == \E i \in DOMAIN Ops :
  LET op == Ops[i]
      \* removing / writing a bank needs a handle, i.e. the bank must exist (API contract)
      en == (op.o \in {"remove", "setins"}) => AHas(A, op.key)
      res == ApiStep(C, op)
      A1 == AbsStep(A, op, res.r)
  IN /\ en
     /\ C' = res.c /\ A' = A1 /\ hist' = Append(hist, i)
     /\ bad' = bad \cup (IF ListOK(res.c) THEN {} ELSE {"list"}) \cup (IF AbsOK(res.c, A1) THEN {} ELSE {"abs"})
                   \cup (IF RtOK(C, res.c, op, res.r) THEN {} ELSE {"rt"})
                   \cup (IF op.o = "get" /\ op.mode = "find" /\ ((res.r = 0) # AHas(A, op.key)) THEN {"find"} ELSE {})
                   \cup (IF op.o = "get" /\ op.mode = "create" /\ res.r # 0 THEN {"create"} ELSE {})
                   \cup (IF op.o = "setins" /\ ~InsIdxOk(op.idx) /\ (res.r # -1 \/ res.c # C \/ A1 # A) THEN {"insidx"} ELSE {})
                   \cup (IF op.o = "setins" /\ InsIdxOk(op.idx) /\ ~(res.r = 0 /\ ReadBackOK(C, res.c, op)) THEN {"readback"} ELSE {})
Spec == Init /\ [][Next]_vars
NoBad == bad = {}
DepthBound == TLCGet("level") < MaxDepth
Emit == (Len(hist) = EmitDepth) => PrintT(<<"BEHAVIOUR", ToJson(hist)>>)
=============================================================================
