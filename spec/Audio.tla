-------------------------------- MODULE Audio --------------------------------
(* C13.  Audio calls fill exactly what they report, in the requested sample format.
   (1) the documented sample conversions and the type x container dispatch table of
       SendStereoAudio (src/opnmidi.cpp, converters in src/opnmidi_private.hpp);
   (2) the byte footprint of a call;
   (3) the two rendering loops opn2_generateFormat / opn2_playFormat as integer state machines
       (left, gotten_len, n_period, carry, delay, tick_skip_samples_delay), time in sub-frame
       units (P.D units per frame, carry is exact), the period buffer of P.cap frames;
   (4) the property predicates, used on the model (AudioMC) and on recorded executions
       (AudioTrace). *)
EXTENDS Common, TLC

---------------------------------------------------------------------------
(* (1) sample types (enum OPNMIDI_SampleType) and conversions *)
S16 == 0  S8 == 1  F32 == 2  F64 == 3  S24 == 4  S32 == 5  U8 == 6  U16 == 7  U24 == 8  U32 == 9
Types == 0..9
IsFloat(t) == t \in {F32, F64}
NaturalSize(t) == CASE t \in {S8, U8} -> 1 [] t \in {S16, U16} -> 2 [] t \in {S24, U24} -> 3
                    [] t \in {S32, U32, F32} -> 4 [] t = F64 -> 8
\* integer samples live in a signed integer container (1, 2 or 4 bytes) at least as wide as the
\* sample; float samples need exactly their own width; everything else is refused
Supported(t, c) == IF t \notin Types THEN FALSE
                   ELSE IF IsFloat(t) THEN c = NaturalSize(t)
                   ELSE c \in {1, 2, 4} /\ c >= NaturalSize(t)

Sat16(x) == Clamp(x, -32768, 32767)
\* a value v is carried as <<q, r>> with v = q * 65536 + r, 0 <= r < 65536 (TLC integers are 32 bit)
Split(v) == <<v \div 65536, v % 65536>>
DocInt(t, x) ==
  LET s == Sat16(x) IN
  CASE t = S16 -> Split(s)
    [] t = U16 -> Split(s + 32768)
    [] t = S8  -> Split(TruncDiv(s, 256))
    [] t = U8  -> Split(TruncDiv(s, 256) + 128)
    [] t = S24 -> Split(s * 256)
    [] t = U24 -> Split(s * 256 + 8388608)
    [] t = S32 -> <<s, 0>>
    [] t = U32 -> <<s + 32768, 0>>
\* the same conversions in table form <<divisor, multiplier, offset, unit>> (unit 1: the value counts in
\* units of 65536); AudioMC checks DocIntT(IntTab(t), x) = DocInt(t, x).  The trace monitors use the
\* table form because TLC evaluates it several times faster.
IntTab(t) == CASE t = S16 -> <<1, 1, 0, 0>>   [] t = U16 -> <<1, 1, 32768, 0>>
               [] t = S8  -> <<256, 1, 0, 0>> [] t = U8  -> <<256, 1, 128, 0>>
               [] t = S24 -> <<1, 256, 0, 0>> [] t = U24 -> <<1, 256, 8388608, 0>>
               [] t = S32 -> <<1, 1, 0, 1>>   [] t = U32 -> <<1, 1, 32768, 1>>
               [] OTHER   -> <<1, 1, 0, 0>>
DocIntT(tb, x) == LET v == TruncDiv(Sat16(x), tb[1]) * tb[2] + tb[3] IN IF tb[4] = 1 THEN <<v, 0>> ELSE Split(v)
\* two's complement little-endian image of v in a c-byte container, as <<bits 16..31, bits 0..15>>
EncInt(v, c) == CASE c = 1 -> <<0, v[2] % 256>>
                  [] c = 2 -> <<0, v[2]>>
                  [] c = 4 -> <<v[1] % 65536, v[2]>>
                  [] OTHER -> <<-1, -1>>
\* float samples are value / 32767.  They are recorded in fixed point f = round(out * 2^21);
\* 2^21 / 32767 = 64 + 64/32767, so the documented value is 64 x + 64 x / 32767 up to the rounding
\* of the float type (F32: 24 bit mantissa, two roundings; F64: only the fixed-point rounding)
RoundDiv(a, b) == (2 * a + b) \div (2 * b)
FloatFix(x) == 64 * x + RoundDiv(64 * x, 32767)
FloatTol(t, x) == IF t = F32 THEN 2 + Abs(x) \div 65536 ELSE 1
FloatOK(t, x, f) == Abs(f - FloatFix(x)) <= FloatTol(t, x)

\* the request the call may serve: rounded down to even, nothing for negative counts
EvenReq(n) == IF n <= 0 THEN 0 ELSE n - (n % 2)

---------------------------------------------------------------------------
(* (2) footprint.  F = [t, c, so, lb, rb]: sample type, container size, sample offset and the byte
   positions of the left / right pointer inside the caller's memory; nf frames are stored.
   The memory image is byte-addressed: sample i of a channel occupies the c bytes from
   pointer + i * so, where so (the record stride) counts BYTES and is independent of the container -
   it need not be a multiple of c and the pointers need not be aligned to c (packed records, planes
   with a stride of c + 1, frames at odd addresses); nothing in this module assumes either. *)
Base(F, ch) == IF ch = 0 THEN F.lb ELSE F.rb
SlotAt(F, ch, i) == Base(F, ch) + i * F.so
InPlane(b, base, so, c, nf) ==
  /\ nf > 0 /\ b >= base
  /\ IF so > 0 THEN (b - base) \div so < nf /\ (b - base) % so < c ELSE b - base < c
InFoot(b, F, nf) == InPlane(b, F.lb, F.so, F.c, nf) \/ InPlane(b, F.rb, F.so, F.c, nf)
FootSet(F, nf) == { SlotAt(F, ch, i) + d : i \in 0..(nf - 1), ch \in {0, 1}, d \in 0..(F.c - 1) }

\* Changed bytes are recorded as strided runs q = <<start, len, stride, count>> (start relative to
\* position `off` of the caller's memory).  RunInLiteral is the definition.  RunIn is equivalent and
\* avoids the enumeration in the common cases: a plane of slots is <<base, width>> (left, right and,
\* when the pointers are one container apart, the whole frames); runs whose stride is a multiple of
\* the sample offset keep their position inside the slot, so if the first and the last run lie in a
\* slot of one plane all of them do (a stride dividing the sample offset is split into such families);
\* a single run inside a plane without unused bytes is inside the footprint.  Everything else is
\* enumerated (run by run, then byte by byte).  AudioMC checks RunIn = RunInLiteral on a grid.
RunInLiteral(q, off, F, nf) == \A j \in 0..(q[4] - 1) : \A d \in 0..(q[2] - 1) : InFoot(q[1] - off + j * q[3] + d, F, nf)
Planes(F) == {<<F.lb, F.c>>, <<F.rb, F.c>>} \cup (IF Abs(F.rb - F.lb) = F.c THEN {<<Min(F.lb, F.rb), 2 * F.c>>} ELSE {})
InSlot(x, len, pl, so, nf) == /\ so > 0 /\ pl[2] <= so /\ x >= pl[1]
                              /\ (x - pl[1]) \div so < nf /\ ((x - pl[1]) % so) + len <= pl[2]
InSolid(x, len, pl, so, nf) == pl[2] = so /\ x >= pl[1] /\ x + len <= pl[1] + nf * so
\* n runs of len bytes at x, x + st, ... (st a multiple of the sample offset, or n = 1) lie in slots of one plane
FamOK(x, len, st, n, F, nf) ==
  \E pl \in Planes(F) : InSlot(x, len, pl, F.so, nf) /\ InSlot(x + (n - 1) * st, len, pl, F.so, nf)
\* one run of len bytes at x
OneRun(x, len, F, nf) ==
  IF nf > 0 /\ len > 0 /\ \E pl \in Planes(F) : InSlot(x, len, pl, F.so, nf) \/ InSolid(x, len, pl, F.so, nf)
  THEN TRUE
  ELSE \A d \in 0..(len - 1) : InFoot(x + d, F, nf)
RunIn(q, off, F, nf) ==
  LET a   == q[1] - off
      len == q[2]
      st  == q[3]
      n   == q[4]
      \* a stride dividing the sample offset (left and right slots alternating): m interleaved families of stride so
      m   == IF F.so > 0 /\ st > 0 /\ F.so % st = 0 THEN F.so \div st ELSE 1
  IN IF /\ n > 1 /\ nf > 0 /\ len > 0 /\ F.so > 0 /\ st > 0 /\ (st % F.so = 0 \/ F.so % st = 0)
        /\ \A r \in 0..(Min(m, n) - 1) : FamOK(a + r * st, len, st * m, (n - r + m - 1) \div m, F, nf)
     THEN TRUE
     ELSE \A j \in 0..(n - 1) : OneRun(a + j * st, len, F, nf)

---------------------------------------------------------------------------
(* (3) the rendering loops.  P = [cap, D, track]: frames of the period buffer (m_outBuf holds 512),
   time units per frame, and whether the stores are tracked (off when only r / periods are wanted).
   S = [carry, delay, tskip, wait, song, atEnd, g]:
     carry, delay        Setup::carry / Setup::delay in time units (carry < P.D)
     tskip               Setup::tick_skip_samples_delay (samples)
     wait, song, atEnd   sequencer: time to the next event, remaining event gaps, end reached
     g                   frames the chips have produced so far (position in the signal)
   Memory is the set of store events <<byte, channel, signal frame, byte of the sample>>. *)
S0(song) == [carry |-> 0, delay |-> 0, tskip |-> 0, wait |-> 0, song |-> song, atEnd |-> FALSE, g |-> 0]
CRem(a, b) == a - b * TruncDiv(a, b)

\* SendStereoAudio(samples_requested, in_size, _in, out_pos, left, right, format)
Send(mem, req, insz, g0, outpos, F, track) ==
  IF insz = 0 THEN [rc |-> 0, mem |-> mem]
  ELSE IF ~Supported(F.t, F.c) THEN [rc |-> -1, mem |-> mem]
  ELSE LET fr == Min(req - outpos, insz * 2) \div 2
           o  == outpos \div 2
       IN [rc |-> 0, mem |-> IF ~track THEN mem ELSE mem \cup { <<SlotAt(F, ch, o + j) + d, ch, g0 + j, d>> :
                                          j \in 0..(fr - 1), ch \in {0, 1}, d \in 0..(F.c - 1) }]

\* opn2_generateFormat
RECURSIVE GenLoop(_, _, _, _)
GenLoop(L, sc, F, P) ==
  IF L.left <= 0 THEN [s |-> L.s, r |-> L.got, mem |-> L.mem, pf |-> L.pf]
  ELSE LET delay0 == IF L.delay <= 0 THEN (L.left \div 2) * P.D ELSE L.delay
           eat == Min(delay0, P.cap * P.D)
           c1  == L.s.carry + eat
           n1  == Min(c1 \div P.D, L.left \div 2)
           gen == Min(n1, P.cap)
           S1  == [L.s EXCEPT !.carry = c1 % P.D, !.g = @ + gen]
           sd  == Send(L.mem, sc, gen, L.s.g, L.got, F, P.track)
       IN IF sd.rc = -1 THEN [s |-> S1, r |-> 0, mem |-> sd.mem, pf |-> Append(L.pf, gen)]
          ELSE GenLoop([s |-> S1, left |-> L.left - 2 * gen, delay |-> delay0 - eat, got |-> L.got + 2 * gen,
                        mem |-> sd.mem, pf |-> Append(L.pf, gen)], sc, F, P)
GenCall(S, n, F, P) ==
  LET sc == n - CRem(n, 2) IN
  IF sc < 0 THEN [s |-> S, r |-> 0, mem |-> {}, pf |-> <<>>]
  ELSE GenLoop([s |-> S, left |-> sc, delay |-> (sc \div 2) * P.D, got |-> 0, mem |-> {}, pf |-> <<>>], sc, F, P)

\* BW_MidiSequencer::Tick(s, granularity = one frame): returns the new Setup::delay
RECURSIVE Proc(_, _)
Proc(S, P) == IF ~S.atEnd /\ 2 * S.wait <= P.D
              THEN (IF S.song = <<>> THEN [S EXCEPT !.atEnd = TRUE]
                    ELSE Proc([S EXCEPT !.wait = @ + Head(S.song), !.song = Tail(@)], P))
              ELSE S
TickModel(S, eat, P) == LET S1 == Proc([S EXCEPT !.wait = @ - eat], P) IN [S1 EXCEPT !.delay = Max(S1.wait, 0)]

\* opn2_playFormat
RECURSIVE PlayLoop(_, _, _, _)
PlayLoop(L, sc, F, P) ==
  LET done(S) == [s |-> S, r |-> L.got, mem |-> L.mem, pf |-> L.pf] IN
  IF L.left <= 0 THEN done(L.s)
  ELSE LET S   == L.s
           eat == Min(S.delay, P.cap * P.D)
           nA  == IF L.skipped THEN Min(S.tskip, sc) \div 2 ELSE (S.carry + eat) \div P.D
           S1  == IF L.skipped THEN S ELSE [S EXCEPT !.delay = @ - eat, !.carry = (S.carry + eat) % P.D]
       IN IF S1.atEnd /\ S1.delay <= 0 THEN done(S1)
          ELSE LET ls  == L.left \div 2
                   S2  == IF nA > ls THEN [S1 EXCEPT !.tskip = (nA - ls) * 2] ELSE S1
                   n1  == Min(nA, ls)
                   gen == Min(n1, P.cap)
                   S3  == [S2 EXCEPT !.g = @ + gen]
                   sd  == Send(L.mem, sc, gen, S.g, L.got, F, P.track)
               IN IF sd.rc = -1 THEN [s |-> S3, r |-> 0, mem |-> sd.mem, pf |-> Append(L.pf, gen)]
                  ELSE LET S4 == IF L.skipped THEN [S3 EXCEPT !.tskip = @ - n1 * 2] ELSE TickModel(S3, eat, P)
                       IN PlayLoop([s |-> S4, left |-> L.left - 2 * gen, got |-> L.got + 2 * gen, mem |-> sd.mem,
                                    pf |-> Append(L.pf, gen), skipped |-> L.skipped /\ S4.tskip > 0], sc, F, P)
PlayCall(S, n, F, P) ==
  LET sc == n - CRem(n, 2) IN
  IF sc < 0 THEN [s |-> S, r |-> 0, mem |-> {}, pf |-> <<>>]
  ELSE PlayLoop([s |-> S, left |-> sc, got |-> 0, mem |-> {}, pf |-> <<>>, skipped |-> S.tskip > 0], sc, F, P)

---------------------------------------------------------------------------
(* (4) property predicates: each returns the set of violated labels *)
Lbl(c, s) == IF c THEN {} ELSE {s}

\* return value.  ended = the song is at its end after the call
RetOK(api, n, t, c, r, ended) ==
  IF ~Supported(t, c) THEN r = 0
  ELSE IF api = "gen" THEN r = EvenReq(n)
  ELSE r >= 0 /\ r <= EvenReq(n) /\ r % 2 = 0 /\ ((r = 0 /\ EvenReq(n) > 0) => ended)

\* a call of the model: pre-state S, result R = [s, r, mem, pf]
CallProps(api, S, n, F, R, P) ==
  LET sup == Supported(F.t, F.c)
      nf  == R.r \div 2
  IN Lbl(RetOK(api, n, F.t, F.c, R.r, R.s.atEnd), "ret")
     \* exactly the reported frames, each sample slot holds its own frame of the signal, in order,
     \* stored once, and nothing else is touched
     \cup Lbl(R.mem = { <<Base(F, ch) + i * F.so + d, ch, S.g + i, d>> : i \in 0..(nf - 1), ch \in {0, 1}, d \in 0..(F.c - 1) }, "memory")
     \cup Lbl({ w[1] : w \in R.mem } = FootSet(F, nf), "foot")
     \cup Lbl(\A i \in DOMAIN R.pf : R.pf[i] >= 0 /\ R.pf[i] <= P.cap, "period")
     \cup Lbl(sup => SumSeq(R.pf) * 2 = R.r /\ R.s.g = S.g + nf, "stream")
     \* stronger than the statement, true of the model: a short return happens only at the end of the song
     \cup Lbl((sup /\ api = "play" /\ R.r < EvenReq(n)) => R.s.atEnd, "short")
=============================================================================
