-------------------------------- MODULE Level --------------------------------
(* C11.  Loudness of a note: what OPN2::touchNote (src/opnmidi_opn2.cpp) writes to the four
   total-level registers 0x40/0x44/0x48/0x4C (+ channel) of the chip channel that plays the
   note, as a function of the volume model, the NoteOn velocity, CC7, CC11, the SysEx master
   volume, CC74 (brightness), the instrument (algorithm, four TL bytes, velocity offset) and
   the two switches "scale modulators" / "full-range brightness".

   Part 1 is an exact integer transcription of the code (tables as constants): it PREDICTS the
   four bytes.  Part 2 holds the property predicates of C11; they speak about observations only
   (an observation = the controls in force + the four bytes on the chip) and are evaluated both
   on the model's own output (spec/LevelMC.tla, leg A) and on bytes recorded from the real
   library (spec/LevelTrace.tla, legs B and C).

   Operator index i \in 1..4 is REGISTER order: 1 = 0x40 (slot 1), 2 = 0x44 (slot 3),
   3 = 0x48 (slot 2), 4 = 0x4C (slot 4). *)
EXTENDS Common, TLC

---------------------------------------------------------------------------
(* Part 1a: tables *)

\* s_dmx_volume_model[128]
DmxTab == <<
    0,  1,  3,  5,  6,  8,  10, 11,
    13, 14, 16, 17, 19, 20, 22, 23,
    25, 26, 27, 29, 30, 32, 33, 34,
    36, 37, 39, 41, 43, 45, 47, 49,
    50, 52, 54, 55, 57, 59, 60, 61,
    63, 64, 66, 67, 68, 69, 71, 72,
    73, 74, 75, 76, 77, 79, 80, 81,
    82, 83, 84, 84, 85, 86, 87, 88,
    89, 90, 91, 92, 92, 93, 94, 95,
    96, 96, 97, 98, 99, 99, 100, 101,
    101, 102, 103, 103, 104, 105, 105, 106,
    107, 107, 108, 109, 109, 110, 110, 111,
    112, 112, 113, 113, 114, 114, 115, 115,
    116, 117, 117, 118, 118, 119, 119, 120,
    120, 121, 121, 122, 122, 123, 123, 123,
    124, 124, 125, 125, 126, 126, 127, 127 >>

\* W9X_volume_mapping_table[32]
W9xTab == <<
    63, 63, 40, 36, 32, 28, 23, 21,
    19, 17, 15, 14, 13, 12, 11, 10,
    9,  8,  7,  6,  5,  5,  4,  4,
    3,  3,  2,  2,  1,  1,  0,  0 >>

(* Generic model: volume = 2 * floor(c1 * ln(V) - c2) for V = v*m*c*e > 1108075, documented in the
   code as the solution of V = 127^4 * 2^((A - 63.49999) / 8).  floor(..) >= k  <=>  V >= GenThr[k],
   GenThr[k] = ceiling(127^4 * 2^((k - 63.49999) / 8)), k = 1..63, computed off-line with 60 digits
   (no integer V is closer than 0.003 to a threshold, so double rounding cannot matter). *)
GenThr == <<
    1157227, 1261965, 1376183, 1500738, 1636566, 1784688, 1946216, 2122363,
    2314454, 2523930, 2752365, 3001475, 3273132, 3569375, 3892431, 4244726,
    4628907, 5047859, 5504729, 6002950, 6546263, 7138750, 7784862, 8489452,
    9257814, 10095717, 11009458, 12005899, 13092525, 14277500, 15569724, 16978904,
    18515627, 20191434, 22018915, 24011797, 26185050, 28554999, 31139448, 33957808,
    37031253, 40382867, 44037829, 48023593, 52370100, 57109998, 62278895, 67915616,
    74062505, 80765734, 88075658, 96047186, 104740199, 114219996, 124557789, 135831232,
    148125009, 161531468, 176151315, 192094371, 209480397, 228439992, 249115578 >>

(* Carriers (the operators whose output is heard) of the eight YM2612 algorithms, in register
   order; everything else is a modulator.  This is chip documentation, not code. *)
Carriers == << {4}, {4}, {4}, {4}, {3, 4}, {2, 3, 4}, {2, 3, 4}, {1, 2, 3, 4} >>
IsCarrier(alg, i) == i \in Carriers[alg + 1]

---------------------------------------------------------------------------
(* Part 1b: the computation.  vm = OPNMIDI_VolumeModels: 0 AUTO (bank default: Generic for banks
   built through the API), 1 Generic, 2 NativeOPN2, 3 DMX, 4 Apogee, 5 Win9x. *)

Plus64(x) == IF x > 0 THEN x + 64 ELSE 0

\* number of thresholds <= V, i.e. |{ k \in 1..63 : V >= GenThr[k] }|, by bisection (lo thresholds are known to be <= V, hi is the first known to be > V)
RECURSIVE GenCount(_, _, _)
GenCount(V, lo, hi) == IF hi - lo <= 1 THEN lo
                       ELSE LET mid == (lo + hi) \div 2 IN IF V >= GenThr[mid] THEN GenCount(V, mid, hi) ELSE GenCount(V, lo, mid)
VolRaw(vm, v, c, e, m) ==
  CASE vm \in {0, 1} -> LET V == v * m * c * e IN
                         IF V > 1108075 THEN 2 * GenCount(V, 0, 64) ELSE 0
    [] vm = 2 -> Plus64((v * c * e * m) \div 4096766)
    [] vm = 3 -> LET i == (c * e * m) \div 16129 IN
                 Plus64((DmxTab[Min(v, 127) + 1] * ((DmxTab[i + 1] + 1) * 2)) \div 512)
    [] vm = 4 -> LET s == (c * e * m) \div 16129 IN Plus64(((64 * (v + 128)) * s) \div 32768)
    [] vm = 5 -> Plus64(63 - W9xTab[(((v * c * e * m) \div 2048383) \div 4) + 1])
Volume(vm, v, c, e, m) == Min(127, VolRaw(vm, v, c, e, m))

\* realTime_NoteOn: instrument velocity offset, clamp to 1..127, soft pedal floor(vel * 0.8f)
EffVel(v, veloff, soft) == LET a == Clamp(v + veloff, 1, 127) IN IF soft THEN (4 * a) \div 5 ELSE a

(* EA-MUS ("RSXX") music mode: a NoteOn for a key that is sounding on that MIDI channel starts no new note; it is a
   velocity update of the sounding one (realTime_NoteOn, first branch): the same clamp to 1..127 with the instrument's
   velocity offset, NO soft-pedal reduction, then noteUpdate(Upd_Volume) - one re-levelling, no patch upload, no key-on.
   The mode also locks the set-up: the Generic volume model is in force whatever was or is asked for. *)
RestrikeVel(v, veloff) == EffVel(v, veloff, FALSE)
RsxxVolumeModel == 1

\* noteUpdate(Upd_Volume): the brightness handed to touchNote
BrightArg(frb, perc, b) == IF perc THEN 127 ELSE IF frb THEN b ELSE IF b >= 64 THEN 127 ELSE 2 * b

\* round(127 * sqrt(b / 127)) = the integer nearest to sqrt(127 b); 508 b is never an odd square
\* (TLC keeps [x \in S |-> e] lazy and re-evaluates e on every application: `\o <<>>` forces a tuple; index = b + 1)
BrightSeq == [j \in 1..128 |-> CHOOSE r \in 0..127 : (r = 0 \/ (2*r - 1) * (2*r - 1) <= 508 * (j - 1)) /\ 508 * (j - 1) < (2*r + 1) * (2*r + 1)] \o <<>>
BrightStep(b) == BrightSeq[b + 1]
(* touchNote re-assigns its `brightness` parameter inside the operator loop, so the operator with
   register index i sees the mapping applied i times. *)
RECURSIVE BrightIter(_, _)
BrightIter(b, n) == IF n = 0 THEN b ELSE BrightIter(BrightStep(b), n - 1)
BrightN == <<[j \in 1..128 |-> BrightIter(j - 1, 1)] \o <<>>, [j \in 1..128 |-> BrightIter(j - 1, 2)] \o <<>>,
             [j \in 1..128 |-> BrightIter(j - 1, 3)] \o <<>>, [j \in 1..128 |-> BrightIter(j - 1, 4)] \o <<>>>>

ScaleTL(factor, x) == 127 - (factor * (127 - (x % 128))) \div 127
OpTL(volume, alg, smod, barg, x, i) ==
  IF IsCarrier(alg, i) \/ smod THEN ScaleTL(volume, x)
  ELSE IF barg = 127 THEN x
  ELSE ScaleTL(BrightN[i][barg + 1], x)

(* An observation o: [vm, smod, frb, perc, alg, itl, veloff, soft, v, vol, expr, mv, b, tl]
   itl = the instrument's four TL bytes, v = NoteOn velocity as sent, soft = soft pedal at NoteOn,
   vol/expr/b = CC7/CC11/CC74 of the MIDI channel, mv = master volume, tl = bytes on the chip. *)
ObsVolume(o) == Volume(o.vm, EffVel(o.v, o.veloff, o.soft), o.vol, o.expr, o.mv)
ModelTLv(o, volume) ==
  LET barg == BrightArg(o.frb, o.perc, o.b)
  IN <<OpTL(volume, o.alg, o.smod, barg, o.itl[1], 1), OpTL(volume, o.alg, o.smod, barg, o.itl[2], 2),
       OpTL(volume, o.alg, o.smod, barg, o.itl[3], 3), OpTL(volume, o.alg, o.smod, barg, o.itl[4], 4)>>
ModelTL(o) == ModelTLv(o, ObsVolume(o))

\* table cells an observation reads (coverage bookkeeping)
DmxVolCell(o) == (o.vol * o.expr * o.mv) \div 16129
DmxVelCell(o) == Min(EffVel(o.v, o.veloff, o.soft), 127)
W9xCell(o) == ((EffVel(o.v, o.veloff, o.soft) * o.vol * o.expr * o.mv) \div 2048383) \div 4

---------------------------------------------------------------------------
(* Part 2: the property C11, on observations. *)

\* "the total-level values written for a note lie in 0..127"
RangeBad(tl) == IF \A i \in DOMAIN tl : tl[i] \in 0..127 THEN {} ELSE {"range"}

\* "a zero volume, expression or master volume silences the carriers"
ZeroApplies(o) == o.vol = 0 \/ o.expr = 0 \/ o.mv = 0
ZeroBad(o) == IF ZeroApplies(o) /\ \E i \in Carriers[o.alg + 1] : o.tl[i] # 127 THEN {"zero"} ELSE {}

\* "modulators are left untouched unless modulator scaling or a reduced brightness is in force"
(* A reduced brightness is in force when CC74 is below the top of its active range: below 127 in full-range
   mode, below 64 otherwise ("by default, brightness affects sound between 0 and 64", opnmidi.h).  The library
   ignores CC74 on percussion channels; the property does not demand that, so the predicate is silent there. *)
BrightReduced(o) == IF o.frb THEN o.b < 127 ELSE o.b < 64
ModApplies(o) == ~o.smod /\ ~BrightReduced(o) /\ Carriers[o.alg + 1] # 1..4
ModBad(o) == IF ModApplies(o) /\ \E i \in 1..4 : ~IsCarrier(o.alg, i) /\ o.tl[i] # o.itl[i] THEN {"modulator"} ELSE {}

SameCfg(p, o) == /\ p.vm = o.vm /\ p.smod = o.smod /\ p.frb = o.frb /\ p.perc = o.perc /\ p.alg = o.alg
                 /\ p.itl = o.itl /\ p.veloff = o.veloff /\ p.soft = o.soft
\* the four loudness controls: 1 velocity, 2 CC7, 3 CC11, 4 master volume
DiffAxes(p, o) == (IF p.v # o.v THEN {1} ELSE {}) \cup (IF p.vol # o.vol THEN {2} ELSE {}) \cup (IF p.expr # o.expr THEN {3} ELSE {}) \cup (IF p.mv # o.mv THEN {4} ELSE {})
LoudGeq(o, p) == o.v >= p.v /\ o.vol >= p.vol /\ o.expr >= p.expr /\ o.mv >= p.mv
LoudEq(o, p) == o.v = p.v /\ o.vol = p.vol /\ o.expr = p.expr /\ o.mv = p.mv
(* "carrier attenuation never increases when velocity, CC7, CC11 or master volume increases with
   the others fixed": p and o differ in exactly one of the four controls, everything else equal. *)
MonoApplies(p, o) == SameCfg(p, o) /\ p.b = o.b /\ Cardinality(DiffAxes(p, o)) = 1
MonoBad(p, o) ==
  IF ~MonoApplies(p, o) THEN {}
  ELSE LET up == LoudGeq(o, p)
           dn == LoudGeq(p, o)
           cs == Carriers[o.alg + 1]
       IN IF (up /\ \E i \in cs : o.tl[i] > p.tl[i]) \/ (dn /\ \E i \in cs : o.tl[i] < p.tl[i]) THEN {"monotone"} ELSE {}

\* "lower brightness never brightens": with everything else equal no operator gets less attenuation
BrightApplies(p, o) == SameCfg(p, o) /\ LoudEq(p, o) /\ p.b # o.b
BrightBad(p, o) ==
  IF ~BrightApplies(p, o) THEN {}
  ELSE IF (o.b <= p.b /\ \E i \in 1..4 : o.tl[i] < p.tl[i]) \/ (o.b >= p.b /\ \E i \in 1..4 : o.tl[i] > p.tl[i]) THEN {"brightness"} ELSE {}

Single(o) == RangeBad(o.tl) \cup ZeroBad(o) \cup ModBad(o)
Pair(p, o) == MonoBad(p, o) \cup BrightBad(p, o)

---------------------------------------------------------------------------
(* Part 3: a chip channel and the notes that hold it.
   With more notes than chip channels OPNMIDIplay lets several notes of ONE instrument hold the same chip
   channel (prepareChipChannelForNewNote keeps a same-instrument user younger than 70 ms, killOrEvacuate
   moves a note over to such a channel).  A chip channel has one set of TL registers and sounds one note:
   the one it was keyed on for last, the OWNER.  Whenever the channel is keyed on - the NoteOn itself, the
   turn the automatic arpeggio gives to the next holder on every tick (updateArpeggio: noteUpdate with
   Upd_Pitch | Upd_Volume | Upd_Pan), a note that took the channel from another one - the registers have to
   hold the levels of THAT note: its velocity and the CC7 / CC11 / CC74 of ITS MIDI channel.
   G = the global controls [vm, smod, frb, mv]; a holder h = the note's own part of an observation
   [perc, alg, itl, veloff, soft, v, vol, expr, b]. *)
HObs(G, h, tl) == [vm |-> G.vm, smod |-> G.smod, frb |-> G.frb, mv |-> G.mv, perc |-> h.perc, alg |-> h.alg, itl |-> h.itl,
                   veloff |-> h.veloff, soft |-> h.soft, v |-> h.v, vol |-> h.vol, expr |-> h.expr, b |-> h.b, tl |-> tl]
LevelsOf(G, h) == ModelTL(HObs(G, h, <<>>))

\* users: the holders in the order they joined; reg: the TL registers; own: the holder keyed last; ctr: m_arpeggioCounter;
\* lev: the holder the registers were levelled for last (OpnChannel::levelled_for of /repo 5cd89c0; 0 = nobody who still holds it)
ChanEmpty == [users |-> <<>>, reg |-> <<0, 0, 0, 0>>, own |-> 0, lev |-> 0, ctr |-> 0]
\* NoteOn into the channel (Upd_All): patch upload, levels of the new note, key-on
ChanJoin(G, C, h) == [C EXCEPT !.users = Append(@, h), !.reg = LevelsOf(G, h), !.own = Len(C.users) + 1, !.lev = Len(C.users) + 1]
\* a controller of holder i's MIDI channel changes (noteUpdateAll(Upd_Volume)): registers rewritten for it, NO key-on
ChanCtl(G, C, i, h2) == [C EXCEPT !.users[i] = h2, !.reg = LevelsOf(G, h2), !.lev = i]
\* the master volume changes: every holder is re-levelled in turn, the last one's levels stay
ChanRelevelAll(G, C) == IF C.users = <<>> THEN C ELSE [C EXCEPT !.reg = LevelsOf(G, C.users[Len(C.users)]), !.lev = Len(C.users)]
\* holder i is released (no other write while somebody else still holds the channel)
DropIdx(x, i) == IF x = i THEN 0 ELSE IF x > i THEN x - 1 ELSE x
ChanLeave(C, i) == [C EXCEPT !.users = SubSeq(@, 1, i - 1) \o SubSeq(@, i + 1, Len(@)), !.own = DropIdx(@, i), !.lev = DropIdx(@, i)]
(* A key-on for holder i (noteUpdate with Upd_Pitch).  maskVolume = the caller's mask contains Upd_Volume.  takeover = the
   repair /repo 5cd89c0: a note that keys on a chip channel whose levels were written for ANOTHER note (one it shares or shared
   the channel with) does the Upd_Pan / Upd_Volume steps first - a re-key by M of registers levelled for N # M re-levels.
   As written before (takeover = FALSE) a pitch bend, vibrato or glide step (mask Upd_Pitch alone) keyed the bent note with the
   levels of whatever note was levelled last, also after that note had left the channel. *)
ChanKeyFor(G, C, i, maskVolume, takeover) ==
  LET relevel == maskVolume \/ (takeover /\ C.lev # i)
  IN [C EXCEPT !.own = i, !.reg = IF relevel THEN LevelsOf(G, C.users[i]) ELSE @, !.lev = IF relevel THEN i ELSE @]
\* a re-pitch of holder i: pitch bend (every note of the MIDI channel), vibrato, glide
ChanRepitch(G, C, i, takeover) == ChanKeyFor(G, C, i, FALSE, takeover)
(* One tick of updateArpeggio for a channel with n >= 2 holders: the counter advances, the holder number
   (ctr \div rate) % n takes its turn (rate 3 for two holders, 2 for three, 1 from four on) with the mask
   Upd_Pitch | Upd_Volume | Upd_Pan (maskVolume = TRUE).  With the take-over rule the Upd_Volume bit is redundant for what a
   key-on finds in the registers (the hand-over re-levels anyway); without either the new owner is keyed with stale levels. *)
ArpRate(n) == IF n >= 4 THEN 1 ELSE IF n = 3 THEN 2 ELSE 3
ArpTurn(ctr, n) == ((ctr \div ArpRate(n)) % n) + 1
ChanTick(G, C, maskVolume, takeover) ==
  LET n == Len(C.users)  c1 == C.ctr + 1
  IN IF n < 2 THEN [C EXCEPT !.ctr = c1] ELSE [ChanKeyFor(G, C, ArpTurn(c1, n), maskVolume, takeover) EXCEPT !.ctr = c1]

\* what is heard after a key-on: the owner's controls with the registers in force
KeyOnObs(G, C) == HObs(G, C.users[C.own], C.reg)
(* C11 at a key-on: the predicates on single observations for the owner (range, zero => carriers silent,
   modulators untouched); `stale` (model level only) = the registers are not the owner's levels. *)
KeyOnBad(o) == Single(o)
KeyOnStale(G, C) == IF C.own # 0 /\ C.reg # LevelsOf(G, C.users[C.own]) THEN {"stale"} ELSE {}

Brief(o) == [vm |-> o.vm, alg |-> o.alg, itl |-> o.itl, sm |-> o.smod, fr |-> o.frb, pc |-> o.perc, so |-> o.soft, vo |-> o.veloff,
             v |-> o.v, c |-> o.vol, e |-> o.expr, m |-> o.mv, b |-> o.b, tl |-> o.tl]
=============================================================================
