------------------------------- MODULE SmfRef -------------------------------
(* Independent reference semantics of Standard MIDI File playback (oracle of C07, C08, C09, C17):
   written from the SMF rules and the property statements, NOT from the sequencer code.

   Abstract song:  [div, fmt, tracks: <<[ev: <<  <<dt, e>>, ... >>, eot: dt]>>]
   event e:        [k |-> "on"|"off"|"nat"|"cc"|"pc"|"cat"|"bend"|"tempo"|"marker"|"loopstart"|"loopend"|"text"|"sysex", ...]
   Reference item: [t (us), tick, trk, idx, ty, st, ch, d, cls]  = what the raw-event hook must show.
   All generated songs use tempi that make one tick an integral number of microseconds.       *)
EXTENDS Common, TLC

DefaultTempoUs == 500000
\* raw-event-hook image of an event: <<type, subtype, channel, data>>
Img(e) ==
  CASE e.k = "on"    -> IF e.v = 0 THEN <<8, 0, e.ch, <<e.n, 0>>>> ELSE <<9, 0, e.ch, <<e.n, e.v>>>>
    [] e.k = "off"   -> <<8, 0, e.ch, <<e.n, IF "v" \in DOMAIN e THEN e.v ELSE 0>>>>
    [] e.k = "nat"   -> <<10, 0, e.ch, <<e.n, e.v>>>>
    [] e.k = "cc"    -> <<11, 0, e.ch, <<e.n, e.v>>>>
    [] e.k = "pc"    -> <<12, 0, e.ch, <<e.p>>>>
    [] e.k = "cat"   -> <<13, 0, e.ch, <<e.v>>>>
    [] e.k = "bend"  -> <<14, 0, e.ch, <<e.v % 128, e.v \div 128>>>>
    [] e.k = "tempo" -> <<255, 81, 0, <<e.us \div 65536, (e.us \div 256) % 256, e.us % 256>>>>
    [] e.k = "marker" -> <<255, 6, 0, e.b>>
    [] e.k = "text"  -> <<255, e.ty, 0, e.b>>
    [] e.k = "loopstart" -> <<255, 225, 0, <<>>>>
    [] e.k = "cc111"     -> <<255, 225, 0, <<>>>>      \* controller 111 is the loop start of RPG-Maker style files
    [] e.k = "loopend"   -> <<255, 226, 0, <<>>>>
    [] e.k = "sysex" -> <<240, 0, 0, <<240>> \o e.b>>
    [] e.k = "sysex7" -> <<240, 0, 0, <<247>> \o e.b>>       \* F7 escape event: delivered with the status byte it has in the file
    [] OTHER -> <<0, 0, 0, <<>>>>
\* Loop controllers of SMF files, decided while the file is PARSED (tracks in file order, events in track order) by a
\* three-state automaton kept per load (m_loopFormat: "def" -> "hmi" -> "emidi"):
\*   def:   CC110 becomes the loop start and switches to hmi;   CC111 is the loop start (RPG-Maker style)
\*   hmi:   CC111 becomes the loop END;   a second CC110 stays a plain controller and switches to emidi
\*   emidi: CC110 / CC111 stay plain controllers;   CC113 is delivered as CC7 (EMIDI volume)
\* Songs carry CC110 / CC113 as plain "cc" events and CC111 as kind "cc111"; NormTracks rewrites them into the kinds the rest
\* of the specifications know ("cc111" = loop start by controller, "loopend", plain "cc").  Every load starts in "def".
NormEvent(e, st) ==
  IF e.k = "cc" /\ e.n = 110
  THEN IF st = "def" THEN [e |-> [k |-> "cc111", ch |-> 0, v |-> 0], st |-> "hmi"]
       ELSE IF st = "hmi" THEN [e |-> e, st |-> "emidi"] ELSE [e |-> e, st |-> st]
  ELSE IF e.k = "cc111" \/ (e.k = "cc" /\ e.n = 111)
  THEN IF st = "hmi" THEN [e |-> [k |-> "loopend"], st |-> st]
       ELSE IF st = "emidi" THEN [e |-> [k |-> "cc", ch |-> e.ch, n |-> 111, v |-> e.v], st |-> st]
       ELSE [e |-> [k |-> "cc111", ch |-> 0, v |-> 0], st |-> st]
  ELSE IF e.k = "cc" /\ e.n = 113 /\ st = "emidi" THEN [e |-> [e EXCEPT !.n = 7], st |-> st]
  ELSE [e |-> e, st |-> st]
RECURSIVE NormEvs(_, _, _, _)
NormEvs(evs, i, st, acc) ==
  IF i > Len(evs) THEN [evs |-> acc, st |-> st]
  ELSE LET r == NormEvent(evs[i][2], st) IN NormEvs(evs, i + 1, r.st, Append(acc, <<evs[i][1], r.e>>))
RECURSIVE NormTracksFrom(_, _, _, _)
NormTracksFrom(tracks, ti, st, acc) ==
  IF ti > Len(tracks) THEN acc
  ELSE LET r == NormEvs(tracks[ti].ev, 1, st, <<>>) IN
       NormTracksFrom(tracks, ti + 1, r.st, Append(acc, [tracks[ti] EXCEPT !.ev = r.evs]))
HasLoopCtl(tracks) == \E ti \in DOMAIN tracks : \E i \in DOMAIN tracks[ti].ev :
                        LET e == tracks[ti].ev[i][2] IN e.k = "cc" /\ e.n \in {110, 111, 113}
NormTracks(tracks) == IF HasLoopCtl(tracks) THEN NormTracksFrom(tracks, 1, "def", <<>>) ELSE tracks

\* ordering classes at one tick: "ctl" (controllers, program, wheel, channel pressure), "on", "off", "other"
Cls(e) == CASE e.k \in {"cc", "pc", "bend", "cat"} -> "ctl"
            [] e.k = "on" /\ e.v > 0 -> "on"
            [] e.k = "off" \/ (e.k = "on" /\ e.v = 0) -> "off"
            [] OTHER -> "other"

\* absolute tick of the i-th event of a track
RECURSIVE TickOf(_, _)
TickOf(ev, i) == IF i = 0 THEN 0 ELSE TickOf(ev, i - 1) + ev[i][1]
LastTick(tr) == TickOf(tr.ev, Len(tr.ev))
EotTick(tr) == LastTick(tr) + tr.eot

\* tempo map: all tempo events as <<tick, trk, idx, us per quarter>>, in (tick, trk, idx) order
TempoEvents(song) ==
  UNION { { <<TickOf(song.tracks[k].ev, i), k, i, song.tracks[k].ev[i][2].us>> :
              i \in { j \in DOMAIN song.tracks[k].ev : song.tracks[k].ev[j][2].k = "tempo" } } : k \in DOMAIN song.tracks }
Before(a, b) == a[1] < b[1] \/ (a[1] = b[1] /\ (a[2] < b[2] \/ (a[2] = b[2] /\ a[3] < b[3])))
\* microseconds per tick in force AFTER all tempo events at ticks <= T have been applied ... at tick T itself the
\* new tempo counts from T on
UsPerTick(song, usq) == usq \div song.div
TempoAt(song, T) ==   \* tempo (us/quarter) in force for the interval starting at tick T
  LET S == { x \in song.tempi : x[1] <= T } IN
  IF S = {} THEN DefaultTempoUs ELSE (CHOOSE x \in S : \A y \in S : y = x \/ Before(y, x))[4]
\* time of tick T: sum over the ticks (songs are short: tick counts stay small)
TempoTicks(song) == { x[1] : x \in song.tempi }
RECURSIVE TimeOfFrom(_, _, _)
TimeOfFrom(song, from, T) ==
  IF from >= T THEN 0
  ELSE LET nexts == { x \in TempoTicks(song) : x > from /\ x < T }
           stop  == IF nexts = {} THEN T ELSE CHOOSE x \in nexts : \A y \in nexts : x <= y
       IN (stop - from) * UsPerTick(song, TempoAt(song, from)) + TimeOfFrom(song, stop, T)
TimeOf(song, T) == TimeOfFrom(song, 0, T)

\* reference items of one track (0-based track number k = index - 1)
TrackItems(song, ti) ==
  LET tr == song.tracks[ti]
      evs == [i \in DOMAIN tr.ev |->
                LET e == tr.ev[i][2]  im == Img(e)  tk == TickOf(tr.ev, i) IN
                [t |-> TimeOf(song, tk), tick |-> tk, trk |-> ti - 1, idx |-> i, ty |-> im[1], st |-> im[2], ch |-> im[3], d |-> im[4],
                 cls |-> Cls(e), k |-> e.k]]
      begin == IF ti = 1 THEN << [t |-> 0, tick |-> 0, trk |-> 0, idx |-> 0, ty |-> 255, st |-> 1, ch |-> 0, d |-> <<>>, cls |-> "other", k |-> "begin"] >> ELSE <<>>
      \* an End-of-Track standing alone at its tick is delivered with the preceding event
      eott == IF tr.eot > 0 THEN TimeOf(song, LastTick(tr)) ELSE TimeOf(song, EotTick(tr))
      eot == << [t |-> eott, tick |-> EotTick(tr), trk |-> ti - 1, idx |-> Len(tr.ev) + 1, ty |-> 255, st |-> 47, ch |-> 0, d |-> <<>>, cls |-> "other", k |-> "eot"] >>
  IN begin \o evs \o eot
AllItems(song) == FlattenSeq([ti \in DOMAIN song.tracks |-> TrackItems(song, ti)])
SongLengthUs(song) == LET its == AllItems(song) IN
  (CHOOSE m \in { its[i].t : i \in DOMAIN its } : \A i \in DOMAIN its : its[i].t <= m) + 1000000

\* gating: enabled[k] for track k (0-based), solo = -1 or a track number.  Tempo events of track 0 always pass (fmt < 2)
Passes(song, it, enabled, solo) ==
  \/ (it.trk = 0 /\ song.fmt < 2 /\ it.k = "tempo")
  \/ ((solo = -1 \/ solo = it.trk) /\ enabled[it.trk + 1])
Gated(song, its, enabled, solo) == SelectSeq(its, LAMBDA it : Passes(song, it, enabled, solo))

\* comparison key of an item / of a delivered log entry <<"e", t, ty, st, ch, d, fr>>
KeyOfItem(it) == <<it.t, it.ty, it.st, it.ch, it.d>>
KeyOfEntry(x) == <<x[2], x[3], x[4], x[5], x[6]>>
SameBag(A, B) == Len(A) = Len(B) /\ \A i \in DOMAIN A : Count(A, LAMBDA y : y = A[i]) = Count(B, LAMBDA y : y = A[i])
=============================================================================
