----------------------------- MODULE SynthTrace -----------------------------
(* Trace validation of recorded executions of the real synthesizer (harness/drive_synth)
   against the properties of SynthProps and -- for refinement -- the model Synth.
   The trace is a sequence of call records, each carrying the post-state snapshot; an
   "Init" record starts a new execution.  Every record is consumed by exactly one step, all
   monitors are evaluated on it, failures are accumulated (never block the run) and the
   summary is printed as a RESULT line at the end. *)
EXTENDS Synth, Json, IOUtils

T == ndJsonDeserialize(IOEnv.TRACE)
\* failures are accumulated up to a bound PER SIGNATURE (property, label): a defect whose bookkeeping symptom repeats on every
\* later snapshot (a wrong counter, say) must not use up the room of the failures of other properties / labels that follow
MaxPerSig == 6

VARIABLES l, h, pre, fails, cnt, exec, xi, drift
vars == <<l, h, pre, fails, cnt, exec, xi, drift>>

Cnt0 == [steps |-> 0, execs |-> 0, noteon |-> 0, c05on |-> 0, c05nonempty |-> 0, c06idle |-> 0, c06full |-> 0,
         c06steal |-> 0, c12blank |-> 0, c12sound |-> 0, c12fallback |-> 0, c19valid |-> 0, c19invalid |-> 0,
         quietchk |-> 0, drainchk |-> 0, shorthit |-> 0, latekoff |-> 0, users2 |-> 0, sustained |-> 0, drumlife |-> 0, refined |-> 0, refskip |-> 0, drifted |-> 0]

Init == l = 1 /\ h = [none |-> TRUE] /\ pre = [none |-> TRUE] /\ fails = <<>> /\ cnt = Cnt0 /\ exec = 0
        /\ xi = [none |-> TRUE] /\ drift = <<>>

Tag(p, S, ev) == { [p |-> p, w |-> x, l |-> l, x |-> exec, e |-> ev.e, d |-> ""] : x \in S }
TagD(p, S, ev, d) == { [p |-> p, w |-> x, l |-> l, x |-> exec, e |-> ev.e, d |-> d] : x \in S }
SigCount(fs, p, w) == Cardinality({ i \in DOMAIN fs : fs[i].p = p /\ fs[i].w = w })
AddFails(S) == IF S = {} THEN fails ELSE fails \o SetToSeq({ f \in S : SigCount(fails, f.p, f.w) < MaxPerSig })
\* reference bookkeeping of the percussion minimum life (non-vacuity counters of the C05 clauses about postponed key-offs)
NumPending(hh) == Cardinality({ i \in DOMAIN hh.life : hh.life[i].pending })

IsNoteOn(ev) == ev.e = "NoteOn" /\ ev.v > 0
StepInit(ev) ==
  /\ h' = RefInit({ ev.mch[i] : i \in DOMAIN ev.mch }, ev.bl, ev.s.nc, IF "devid" \in DOMAIN ev THEN ev.devid ELSE 0)
  /\ pre' = ev.s
  /\ xi' = [lim |-> ev.xlim, rate |-> ev.rate, bl |-> ev.bl]
  /\ drift' = drift
  /\ exec' = exec + 1
  /\ fails' = AddFails(Tag("C04", C04Fails(ev.s), ev))
  /\ cnt' = [cnt EXCEPT !.execs = @ + 1, !.steps = @ + 1]

StepCall(ev) ==
  LET s  == ev.s
      h1 == RefStep(h, ev, s.nc)
      p  == IF ev.e = "NoteOn" THEN <<ev.ch, Min(ev.k, 127)>> ELSE <<0, 0>>
      known == ev.e = "NoteOn" /\ Known(h, ev.ch)
      ins == IF IsNoteOn(ev) /\ known THEN Doc(h.bl, h.mode, RefView(h, ev.ch), p[2]) ELSE BlankIns
      f04 == Tag("C04", C04Fails(s), ev)
      f05 == TagD("C05", C05Fails(h1, s), ev, ToString(<<"held", Held(h1), "sounding", Sounding(s)>>))
      f06 == IF IsNoteOn(ev) /\ known THEN Tag("C06", C06Fails(pre, s, p, ev.r, ins.blank), ev) ELSE {}
      f12 == IF IsNoteOn(ev) /\ known THEN Tag("C12", C12Fails(h, ev, s), ev) ELSE {}
      f19 == IF ev.e = "SysEx" THEN Tag("C19", C19Fails(h, ev, pre, s), ev) ELSE {}
      sd  == IF ev.e = "SysEx" THEN SysExDoc(ev.b, h.dev) ELSE Invalid
      \* leg (C): the recorded step is a step of the model (stateless: from the logged pre-state)
      doRef == Modelled(ev) /\ (ev.e = "Gen" => "pf" \in DOMAIN ev /\ Len(ev.pf) <= 16)
      x1  == IF ev.e \in {"OpenBank"} /\ ev.r = 0 THEN [xi EXCEPT !.bl = ev.bl]
             ELSE IF ev.e = "SetIns" /\ ev.r = 0 THEN [xi EXCEPT !.bl = h1.bl] ELSE xi
      mres == IF doRef THEN Step(Lift(pre, xi), ev) ELSE [s |-> 0, r |-> 0]
      dset == IF doRef THEN Diff(Proj(mres.s), s, IF ev.e = "Gen" THEN 2 + Len(ev.pf) ELSE 1) \cup
                            (IF ev.e \in {"NoteOn", "SysEx", "SetDevId", "SetNumChips"} /\ mres.r # ev.r THEN {"ret"} ELSE {})
              ELSE {}
  IN /\ h' = h1
     /\ xi' = x1
     /\ drift' = IF dset # {} /\ Len(drift) < 8 THEN Append(drift, [l |-> l, x |-> exec, e |-> ev.e, d |-> ToString(dset)]) ELSE drift
     /\ pre' = s
     /\ exec' = exec
     /\ fails' = AddFails(f04 \cup f05 \cup f06 \cup f12 \cup f19)
     /\ cnt' = [cnt EXCEPT
          !.steps = @ + 1,
          !.noteon = @ + (IF IsNoteOn(ev) THEN 1 ELSE 0),
          !.c05on = @ + (IF h1.polyOK THEN 1 ELSE 0),
          !.c05nonempty = @ + (IF h1.polyOK /\ Held(h1) # {} THEN 1 ELSE 0),
          !.c06idle = @ + (IF IsNoteOn(ev) /\ ~ins.blank /\ IdleChans(pre) # {} THEN 1 ELSE 0),
          !.c06full = @ + (IF IsNoteOn(ev) /\ ~ins.blank /\ IdleChans(pre) = {} THEN 1 ELSE 0),
          !.c06steal = @ + (IF IsNoteOn(ev) /\ ~ins.blank /\ IdleChans(pre) = {} /\
                               (\E ci \in DOMAIN pre.ch : Len(pre.ch[ci].u) = 1 /\ KeyDownLocs(pre, ci) = {}) THEN 1 ELSE 0),
          !.c12blank = @ + (IF IsNoteOn(ev) /\ known /\ ins.blank THEN 1 ELSE 0),
          !.c12sound = @ + (IF IsNoteOn(ev) /\ known /\ ~ins.blank THEN 1 ELSE 0),
          !.c12fallback = @ + (IF IsNoteOn(ev) /\ known /\ ~ins.blank /\
                                  InsAt(h.bl, DocBankKey(h.mode, RefView(h, ev.ch)), DocIndex(RefView(h, ev.ch), p[2])).blank THEN 1 ELSE 0),
          !.c19valid = @ + (IF ev.e = "SysEx" /\ sd.valid THEN 1 ELSE 0),
          !.c19invalid = @ + (IF ev.e = "SysEx" /\ ~sd.valid THEN 1 ELSE 0),
          !.quietchk = @ + (IF h1.quiet >= 30010 THEN 1 ELSE 0),
          \* the final Drain step of a history (everything released, >= 60 ms generated): the no-stuck-note clause is decided there
          !.drainchk = @ + (IF ev.e = "Gen" /\ "drain" \in DOMAIN ev /\ h1.quiet >= 30010 THEN 1 ELSE 0),
          \* a percussion note released inside its minimum life (key-off postponed) / a postponed key-off that fell due in this Gen
          !.shorthit = @ + (IF ev.e # "Gen" /\ NumPending(h1) > NumPending(h) THEN 1 ELSE 0),
          !.latekoff = @ + (IF ev.e = "Gen" /\ NumPending(h1) < NumPending(h) THEN 1 ELSE 0),
          !.users2 = @ + (IF \E ci \in DOMAIN s.ch : Len(s.ch[ci].u) > 1 THEN 1 ELSE 0),
          !.sustained = @ + (IF \E ci \in DOMAIN s.ch : \E ui \in DOMAIN s.ch[ci].u : s.ch[ci].u[ui].s # 0 THEN 1 ELSE 0),
          !.drumlife = @ + (IF h1.life # <<>> THEN 1 ELSE 0),
          !.refined = @ + (IF doRef THEN 1 ELSE 0),
          !.refskip = @ + (IF doRef THEN 0 ELSE 1),
          !.drifted = @ + (IF dset # {} THEN 1 ELSE 0)]

StepCrash(ev) ==
  /\ fails' = AddFails({[p |-> "CRASH", w |-> ev.stage, l |-> l, x |-> exec, e |-> "Crash", d |-> ""]})
  /\ UNCHANGED <<h, pre, cnt, exec, xi, drift>>

Next ==
  \/ /\ l <= Len(T)
     /\ l' = l + 1
     /\ LET ev == T[l] IN
        CASE ev.e = "Init"  -> StepInit(ev)
          [] ev.e = "Crash" -> StepCrash(ev)
          [] ev.e = "End"   -> UNCHANGED <<h, pre, fails, cnt, exec, xi, drift>>
          [] OTHER          -> StepCall(ev)
  \/ /\ l = Len(T) + 1
     /\ l' = l + 1
     /\ PrintT(<<"RESULT", ToJson([n |-> Len(T), fails |-> fails, cnt |-> cnt, drift |-> drift])>>)
     /\ UNCHANGED <<h, pre, fails, cnt, exec, xi, drift>>

Spec == Init /\ [][Next]_vars
=============================================================================
