----------------------------- MODULE LoaderTrace -----------------------------
(* C01: validation of recorded loader executions (harness/drive_loader) by TLC.

   A trace is a sequence of command records; "Init" starts a new execution (= one forked child, one
   fresh player), "Load" hands a byte string  head ++ unit^times ++ tail  to opn2_openData, the other
   records are the follow-up calls, "Done" carries the totals of the execution.

   Leg B (property monitors, accumulate in `fails`):
     crash@<site>[/<guard>]        the call did not return: sanitizer report, signal, abort or (throw@) an exception
     throw@<site>[/<guard>]        through the C API; site = innermost library frame; /<guard> = the model's name of
                                   the missing check when spec/Loader.tla predicts exactly this crash for these bytes
     hog@<where>                   time or memory not proportional to the input: the call was stopped by the CPU /
                                   resident-set limit of the harness, or it returned after > 5 s CPU or with > 512 MiB
                                   resident (where = the loop/allocation site the model names for these bytes, else the call)
     result-undefined              opn2_openData returned neither 0 nor -1, or -1 with an empty error text
   Leg C (refinement against spec/Loader.tla, accumulate in `drift`): the outcome class predicted by the
   model for these bytes (accept / reject / crash at site / resource) against the observed one.
   Which inputs are accepted is not part of C01, so a disagreement is MODEL-DRIFT, never a violation. *)
EXTENDS Loader, Json, IOUtils, TLC
T == ndJsonDeserialize(IOEnv.TRACE)
MaxPerLabel == 3
MaxDrift == 8
CpuCapMs == 5000
RssCapKiB == 524288
PredMaxLiteral == 1500        \* the model is evaluated when head and tail together are at most this long

VARIABLES l, cur, fails, cnt, drift, exec
vars == <<l, cur, fails, cnt, drift, exec>>
Cur0 == [sel |-> 0, kind |-> "none", loaded |-> FALSE, dead |-> FALSE, over |-> FALSE]
Cnt0 == [records |-> 0, execs |-> 0, loads |-> 0, follow |-> 0, skipped |-> 0,
         st_evals |-> 0, result_evals |-> 0, time_evals |-> 0, mem_evals |-> 0,
         accepted |-> 0, rejected |-> 0, died |-> 0,
         k_smf |-> 0, k_rmi |-> 0, k_gmf |-> 0, k_mus |-> 0, k_xmi |-> 0, k_cmf |-> 0, k_imf |-> 0, k_rsxx |-> 0, k_junk |-> 0, k_short |-> 0, k_unk |-> 0,
         big |-> 0, slow_1s |-> 0, fat_128m |-> 0,
         predicted |-> 0, pred_acc |-> 0, pred_rej |-> 0, pred_crash |-> 0, pred_resource |-> 0, pred_unk |-> 0, pred_skipped |-> 0,
         refined |-> 0, drifted |-> 0, sel_neg |-> 0, reload |-> 0]
Init == l = 1 /\ cur = Cur0 /\ fails = <<>> /\ cnt = Cnt0 /\ drift = <<>> /\ exec = 0

Has(ev, f) == f \in DOMAIN ev
B(c) == IF c THEN 1 ELSE 0
Fail(w, ev, d) == [p |-> "C01", w |-> w, l |-> l, x |-> exec, e |-> ev.e, d |-> d]
AddFails(S) == LET keep == { x \in S : Cardinality({ i \in DOMAIN fails : fails[i].w = x.w }) < MaxPerLabel } IN
               IF keep = {} THEN fails ELSE fails \o SetToSeq(keep)
AddDrift(ev, d) == IF Len(drift) < MaxDrift THEN Append(drift, [l |-> l, x |-> exec, e |-> ev.e, d |-> d]) ELSE drift

Inp(ev) == [head |-> ev.head, unit |-> ev.unit, times |-> ev.times, tail |-> ev.tail]

(* the monitors every executed command is subject to *)
Died(ev) == ev.st \in {"crash", "throw", "timeout", "rss"}
Detail(ev) == IF Died(ev) THEN ToString(<<ev.kind, ev.file, ev.line, IF Has(ev, "what") THEN ev.what ELSE "">>) ELSE ""
(* labels: the observed site, refined by the model's name of the missing guard when the model explains exactly this crash *)
StFails(ev, pred, md) ==
  LET hs == IF pred.res = "resource" THEN pred.site \o "/" \o pred.why ELSE ev.e
      ex == IF pred.res \notin {"crash", "unk"} THEN ""
            ELSE IF pred.why # "" /\ (pred.site = ev.site \/ pred.site = "?") THEN "/" \o pred.why
            ELSE IF pred.awhy # "" /\ pred.asite = ev.site THEN "/" \o pred.awhy
            ELSE "" IN
  IF ev.st = "crash" THEN {Fail("crash@" \o ev.site \o ex, ev, Detail(ev) \o md)}
  ELSE IF ev.st = "throw" THEN {Fail("throw@" \o ev.site \o ex, ev, Detail(ev) \o md)}
  ELSE IF ev.st = "timeout" THEN {Fail("hog@" \o hs, ev, "cpu limit " \o Detail(ev) \o " in " \o ev.site \o md)}
  ELSE IF ev.st = "rss" THEN {Fail("hog@" \o hs, ev, "resident-set limit " \o Detail(ev) \o " in " \o ev.site \o md)}
  ELSE {}
CostFails(ev, pred, md) ==
  LET hs == IF pred.res = "resource" THEN pred.site \o "/" \o pred.why ELSE ev.e IN
  (IF ev.st = "ok" /\ ev.cpu > CpuCapMs THEN {Fail("hog@" \o hs, ev, ToString(ev.cpu) \o " ms cpu" \o md)} ELSE {})
  \cup (IF ev.st = "ok" /\ ev.hwm > RssCapKiB /\ ~cur.over THEN {Fail("hog@" \o hs, ev, ToString(ev.hwm) \o " KiB resident" \o md)} ELSE {})
Over(ev) == cur.over \/ (ev.st = "ok" /\ ev.hwm > RssCapKiB)     \* hwm is a high-water mark: reported once per execution

(* observed outcome class of a Load record, comparable with the model's *)
Observed(ev) ==
  IF ev.st \in {"crash", "throw"} THEN Crash(ev.site, "")
  ELSE IF ev.st \in {"timeout", "rss"} \/ (ev.st = "ok" /\ (ev.cpu > CpuCapMs \/ ev.hwm > RssCapKiB)) THEN Hog("", "")
  ELSE IF ev.r = 0 THEN Acc
  ELSE Rej
Agrees(p, o) == p.res = o.res /\ (p.res = "crash" => p.site = o.site)

StepInit(ev) ==
  /\ cur' = [Cur0 EXCEPT !.dead = Died(ev)] /\ exec' = exec + 1 /\ drift' = drift
  /\ fails' = AddFails(StFails(ev, Unk, ""))
  /\ cnt' = [cnt EXCEPT !.records = @ + 1, !.execs = @ + 1, !.st_evals = @ + 1]

StepLoad(ev) ==
  LET I == Inp(ev)
      n == N(I)
      canPredict == HL(I) + Len(I.tail) <= PredMaxLiteral
      pred == IF canPredict THEN Load(I, cur.sel) ELSE Unk
      md == IF pred.why # "" THEN " model=" \o pred.res \o "@" \o pred.site \o "/" \o pred.why ELSE ""
      kind == IF canPredict THEN Kind(I) ELSE "unk"
      obs == Observed(ev)
      f == StFails(ev, pred, md) \cup CostFails(ev, pred, md)
           \cup (IF ev.st = "ok" /\ ~(ev.r \in {0, -1} /\ (ev.r = -1 => ev.errlen > 0))
                 THEN {Fail("result-undefined", ev, ToString(<<ev.r, ev.errlen>>))} ELSE {})
      decided == pred.res # "unk"
      d == decided /\ ~Agrees(pred, obs)
  IN /\ cur' = [cur EXCEPT !.kind = kind, !.loaded = (ev.st = "ok" /\ ev.r = 0), !.dead = Died(ev), !.over = Over(ev)]
     /\ exec' = exec
     /\ fails' = AddFails(f)
     /\ drift' = IF d THEN AddDrift(ev, ToString(<<"model", pred.res, pred.site, "observed", obs.res, obs.site, "kind", kind, "n", n>>)) ELSE drift
     /\ cnt' = [cnt EXCEPT !.records = @ + 1, !.loads = @ + 1, !.st_evals = @ + 1,
                 !.result_evals = @ + B(ev.st = "ok"), !.time_evals = @ + B(ev.st = "ok"), !.mem_evals = @ + B(ev.st = "ok"),
                 !.accepted = @ + B(ev.st = "ok" /\ ev.r = 0), !.rejected = @ + B(ev.st = "ok" /\ ev.r # 0), !.died = @ + B(Died(ev)),
                 !.k_smf = @ + B(kind = "smf"), !.k_rmi = @ + B(kind = "rmi"), !.k_gmf = @ + B(kind = "gmf"), !.k_mus = @ + B(kind = "mus"),
                 !.k_xmi = @ + B(kind = "xmi"), !.k_cmf = @ + B(kind = "cmf"), !.k_imf = @ + B(kind = "imf"), !.k_rsxx = @ + B(kind = "rsxx"),
                 !.k_junk = @ + B(kind = "junk"), !.k_short = @ + B(kind = "short"), !.k_unk = @ + B(kind = "unk"),
                 !.big = @ + B(n >= 16384),
                 !.slow_1s = @ + B(ev.st = "ok" /\ ev.cpu > 1000), !.fat_128m = @ + B(ev.st = "ok" /\ ev.hwm > 131072),
                 !.predicted = @ + B(decided), !.pred_acc = @ + B(pred.res = "acc"), !.pred_rej = @ + B(pred.res = "rej"),
                 !.pred_crash = @ + B(pred.res = "crash"), !.pred_resource = @ + B(pred.res = "resource"),
                 !.pred_unk = @ + B(canPredict /\ ~decided), !.pred_skipped = @ + B(~canPredict),
                 !.refined = @ + B(decided), !.drifted = @ + B(d),
                 !.sel_neg = @ + B(cur.sel < 0)]

(* opn2_selectSongNum: before a load it only stores the number; after an accepted XMI load it re-parses
   the selected song (setSongNum) -- with a negative number that indexes m_rawSongsData[-1] *)
StepSel(ev) ==
  LET reload == cur.loaded /\ cur.kind = "xmi"
      predCrash == reload /\ ev.i < 0 /\ ~R("sel")
      md == IF predCrash THEN " model=crash@setSongNum" ELSE ""
      pred == IF predCrash THEN Crash("setSongNum", "song-index") ELSE Unk
      d == ev.st # "skip" /\ reload /\ (predCrash # (ev.st \in {"crash", "throw"}))
  IN /\ cur' = [cur EXCEPT !.sel = ev.i, !.dead = Died(ev), !.over = Over(ev)]
     /\ exec' = exec
     /\ fails' = AddFails(StFails(ev, pred, md) \cup (IF ev.st = "ok" THEN CostFails(ev, pred, md) ELSE {}))
     /\ drift' = IF d THEN AddDrift(ev, ToString(<<"model", predCrash, "observed", ev.st>>)) ELSE drift
     /\ cnt' = [cnt EXCEPT !.records = @ + 1, !.follow = @ + B(ev.st = "ok"), !.skipped = @ + B(ev.st = "skip"),
                 !.st_evals = @ + B(ev.st # "skip"), !.time_evals = @ + B(ev.st = "ok"), !.mem_evals = @ + B(ev.st = "ok"),
                 !.died = @ + B(Died(ev)), !.reload = @ + B(reload /\ ev.st # "skip"),
                 !.refined = @ + B(reload /\ ev.st # "skip"), !.drifted = @ + B(d)]

StepOther(ev) ==
  /\ cur' = [cur EXCEPT !.dead = @ \/ Died(ev), !.over = Over(ev)] /\ exec' = exec /\ drift' = drift
  /\ fails' = AddFails(StFails(ev, Unk, "") \cup (IF ev.st = "ok" THEN CostFails(ev, Unk, "") ELSE {}))
  /\ cnt' = [cnt EXCEPT !.records = @ + 1, !.follow = @ + B(ev.st = "ok" /\ ev.e # "Done"), !.skipped = @ + B(ev.st = "skip"),
              !.st_evals = @ + B(ev.st # "skip"), !.time_evals = @ + B(ev.st = "ok"), !.mem_evals = @ + B(ev.st = "ok"),
              !.died = @ + B(Died(ev))]

Next ==
  \/ /\ l <= Len(T) /\ l' = l + 1
     /\ LET ev == T[l] IN
        CASE ev.e = "Init" -> StepInit(ev)
          [] ev.e = "Load" -> (IF ev.st = "skip" THEN StepOther(ev) ELSE StepLoad(ev))
          [] ev.e = "Sel"  -> StepSel(ev)
          [] ev.e = "End"  -> UNCHANGED <<cur, fails, cnt, drift, exec>>
          [] OTHER -> StepOther(ev)
  \/ /\ l = Len(T) + 1 /\ l' = l + 1
     /\ PrintT(<<"RESULT", ToJson([n |-> Len(T), fails |-> fails, cnt |-> cnt, drift |-> drift])>>)
     /\ UNCHANGED <<cur, fails, cnt, drift, exec>>
Spec == Init /\ [][Next]_vars
=============================================================================
