------------------------------- MODULE ConvTrace -------------------------------
(* Trace validation of C17 (container / converter front-ends preserve the music: RMI, GMF, MUS, XMI) on executions
   recorded by harness/drive_conv.  Oracles: MusRef / XmiRef (reference interpreters of the two source formats over
   abstract scores) and SmfRef (reference semantics of SMF) for the RMI / GMF wrappings.
   Per execution: Init, then any number of  <source> [Select] Load [Select] Play  groups, where <source> is a Mus, Xmi
   or Smf record (the abstract input + the bytes the harness produced from it).
   The groups of one execution run on ONE player (the session dimension: XMI after XMI with other song counts and selections,
   MUS after XMI, SMF / RMI / GMF in between, a file cut short or overwritten in between).  The expectation is reset with
   every Load: what is judged is the file of THAT load (XmiRef!SessLoad: nothing of an earlier file survives), the only thing
   carried from file to file is the song selection (src.sess, the fold of XmiRef!SessSelect / SessLoad / SessLoadUndefined).
   Every predicate is evaluated here; the harness only records what the library did.
   Leg (C), refinement (drift only, never a verdict): a Cvt record holds the SMF that the REAL converter functions
   (Convert_mus2midi / Convert_xmi2midi_multi, called directly on the encoded bytes) produced, parsed into abstract form;
   it is compared with the implementation models Mus2Mid / Xmi2Mid applied to the same bytes: first difference -> `drift`. *)
EXTENDS SmfRef, MusRef, XmiRef, Mus2Mid, Xmi2Mid, Json, IOUtils, Sequences

T == ndJsonDeserialize(IOEnv.TRACE)
MaxFails == 30     \* per label
VARIABLES l, src, sel, prev, fails, cnt, exec, drift
vars == <<l, src, sel, prev, fails, cnt, exec, drift>>

\* sess: the player session (XmiRef); loads / pk: number of Load steps of this execution and what the previous one was (counters only)
Src0 == [kind |-> "none", loaded |-> FALSE, wf |-> FALSE, sess |-> Sess0, loads |-> 0, pk |-> "none"]
Carry(new) == new @@ [sess |-> src.sess, loads |-> src.loads, pk |-> src.pk]
\* "keep": only the first k bytes of the encoding reach the player (harness/drive_conv.cpp): a file the formats do not define
CutShort(ev) == "keep" \in DOMAIN ev
Keep(b, ev) == IF CutShort(ev) /\ ev.keep < Len(b) THEN SubSeq(b, 1, ev.keep) ELSE b
NoModel == [ok |-> FALSE, unmodelled |-> TRUE]
\* XMI "poke": bytes overwritten at absolute positions (modulo the file size), exactly as the harness does it
RECURSIVE PokeAbs(_, _, _)
PokeAbs(b, pk, i) == IF i > Len(pk) THEN b ELSE PokeAbs([b EXCEPT ![(pk[i][1] % Len(b)) + 1] = pk[i][2]], pk, i + 1)
Poked(ev) == "poke" \in DOMAIN ev /\ ev.poke # <<>>
Damaged(ev) == CutShort(ev) \/ Poked(ev)
Prev0 == [valid |-> FALSE]
Cnt0 == [steps |-> 0, execs |-> 0, encoders |-> 0,
         musLoads |-> 0, musPlays |-> 0, musGroups |-> 0, musEvents |-> 0, musTimed |-> 0, musExtras |-> 0, musSys |-> 0,
         musOddPitch |-> 0, musMemVol |-> 0, musPerc |-> 0, musLongDelay |-> 0, musChans |-> 0,
         xmiLoads |-> 0, xmiPlays |-> 0, xmiGroups |-> 0, xmiEvents |-> 0, xmiNoteOffs |-> 0, xmiTimed |-> 0, xmiMulti |-> 0,
         xmiSelected |-> 0, xmiReselect |-> 0, xmiSongCounts |-> 0,
         contPlays |-> 0, contSame |-> 0, contEvents |-> 0, rmi |-> 0, gmf |-> 0, skipped |-> 0,
         sessLoads |-> 0, sessXmiAfterXmi |-> 0, sessXmiAfterOther |-> 0, sessOtherAfterXmi |-> 0, sessAfterRejected |-> 0, sessCutShort |-> 0,
         sessPlays |-> 0, sessXmiPlays |-> 0, sessSelPlays |-> 0, sessOpenSel |-> 0, sessCounts |-> 0,
         refined |-> 0, drifted |-> 0, refskip |-> 0, refEvents |-> 0, refMus |-> 0, refXmi |-> 0, refSongs |-> 0, refRejected |-> 0, refCrashPredicted |-> 0, refUndefined |-> 0]
Init == l = 1 /\ src = Src0 /\ sel = 0 /\ prev = Prev0 /\ fails = <<>> /\ cnt = Cnt0 /\ exec = 0 /\ drift = <<>>

Tag(S, ev, d) == { [p |-> "C17", w |-> x, l |-> l, x |-> exec, e |-> ev.e, d |-> d] : x \in S }
AddFails(S) == LET keep == { x \in S : Cardinality({ i \in DOMAIN fails : fails[i].w = x.w }) < MaxFails } IN
               IF keep = {} THEN fails ELSE fails \o SetToSeq(keep)
Lbl(c, s) == IF c THEN {} ELSE {s}

---------------------------------------------------------------------------
(* helpers over a recorded play.  Log entry = <<"e", t (us), type, subtype, channel, data>> *)
AllLog(calls) == FlattenSeq([i \in DOMAIN calls |-> calls[i][5]])
ChanOf(D) == SelectSeq(D, LAMBDA x : x[3] \in 8..14)
\* besides channel events only the synthetic song-begin record, tempo metas and the End-of-Track may appear
MetaOK(D) == \A i \in DOMAIN D : D[i][3] \in 8..14 \/ (D[i][3] = 255 /\ D[i][4] \in {1, 81, 47})
\* what the source formats leave open: the release velocity; for MUS the value byte of a channel-mode message
NormD(mus, ty, d) == IF ty = 8 THEN <<d[1]>> ELSE IF mus /\ ty = 11 /\ d[1] \in ModeCCs THEN <<d[1]>> ELSE d
EKey(mus, x) == <<x[3], x[5], NormD(mus, x[3], x[6])>>
RKey(mus, k) == <<k[1], k[2], NormD(mus, k[1], k[3])>>
IdKey(k) == k
\* diagnostic normalisations used ONLY to name a defect class after the literal predicate has failed
NoBendLsb(k) == IF k[1] = 14 THEN <<14, k[2], <<k[3][2]>>>> ELSE k
Bank127(k) == IF k[1] = 11 /\ k[3] = <<0, 127>> THEN <<11, k[2], <<0, 0>>>> ELSE k

RECURSIVE DistinctT(_, _, _)
DistinctT(C, i, acc) == IF i > Len(C) THEN acc
                        ELSE DistinctT(C, i + 1, IF acc # <<>> /\ acc[Len(acc)] = C[i][2] THEN acc ELSE Append(acc, C[i][2]))
TimesOf(C) == LET d == DistinctT(C, 1, <<>>) IN IF d = <<>> \/ d[1] # 0 THEN <<0>> \o d ELSE d
Increasing(s) == \A i \in 1..(Len(s) - 1) : s[i] < s[i + 1]
RECURSIVE SortSet(_)
SortSet(S) == IF S = {} THEN <<>> ELSE LET m == CHOOSE x \in S : \A y \in S : x <= y IN <<m>> \o SortSet(S \ {m})
TicksOf(its) == SortSet({0} \cup { its[i].tick : i \in DOMAIN its })

\* group i: the delivered channel events stamped T[i] against the reference items of tick K[i]; X = tolerated extras
GroupKeys(mus, C, Tm, items, K, X, nk(_), i) ==
  LET Dg == SelectSeq(C, LAMBDA x : x[2] = Tm[i])
      Rg == SelectSeq(items, LAMBDA it : it.tick = K[i])
      Xg == SelectSeq(X, LAMBDA x : x.tick = K[i])
  IN [d |-> [j \in DOMAIN Dg |-> nk(EKey(mus, Dg[j]))], r |-> [j \in DOMAIN Rg |-> nk(RKey(mus, Rg[j].key))],
      x |-> [j \in DOMAIN Xg |-> nk(RKey(mus, Xg[j].key))]]
GroupOK(mus, C, Tm, items, K, X, nk(_), i) ==
  LET g == GroupKeys(mus, C, Tm, items, K, X, nk, i) IN
  \A k \in SeqToSet(g.d) \cup SeqToSet(g.r) :
     LET cd == Count(g.d, LAMBDA y : y = k)  cr == Count(g.r, LAMBDA y : y = k)  cx == Count(g.x, LAMBDA y : y = k)
     IN cd >= cr /\ cd <= cr + cx
EventsOK(mus, C, Tm, items, K, X, nk(_)) ==
  Len(Tm) = Len(K) /\ Increasing(Tm) /\ \A i \in DOMAIN K : GroupOK(mus, C, Tm, items, K, X, nk, i)
Explain(mus, C, Tm, items, K, X) ==
  IF Len(Tm) # Len(K) \/ ~Increasing(Tm) THEN ToString(<<"times", Tm, "ticks", K>>)
  ELSE LET bad == { i \in DOMAIN K : ~GroupOK(mus, C, Tm, items, K, X, IdKey, i) } IN
       IF bad = {} THEN ""
       ELSE LET i == CHOOSE x \in bad : \A y \in bad : x <= y  g == GroupKeys(mus, C, Tm, items, K, X, IdKey, i)
            IN ToString(<<"tick", K[i], "t", Tm[i], "got", g.d, "want", g.r, "tolerated", g.x>>)
\* same time and channel: a controller / program / wheel / pressure never after a note-on (order rule of C07)
OrderOK1(D) == \A i, j \in DOMAIN D : (i < j /\ D[i][2] = D[j][2] /\ D[i][5] = D[j][5] /\ D[i][3] = 9) => D[j][3] \notin {11, 12, 13, 14}
OrderOKCalls(calls) == \A ci \in DOMAIN calls : OrderOK1(calls[ci][5])

---------------------------------------------------------------------------
(* MUS *)
MusPlayFails(ev, s) ==
  LET D == AllLog(ev.calls)  C == ChanOf(D)  Tm == TimesOf(C)
      K0 == s.ticks
      \* a score end that names a channel used by no other event: its channel-volume artefact may stand alone at the end tick
      K  == IF Len(Tm) = Len(K0) + 1 /\ s.endFresh /\ s.endTick > K0[Len(K0)] THEN Append(K0, s.endTick) ELSE K0
      lit == EventsOK(TRUE, C, Tm, s.items, K, s.extras, IdKey)
      aligned == Len(Tm) = Len(K) /\ Increasing(Tm)
      E(i) == MusTickUs(K[i])
      timeOK == \A i \in DOMAIN K :
                  /\ Abs(Tm[i] - E(i)) <= E(i) \div 40 + 2
                  /\ (i > 1 => Abs((Tm[i] - Tm[i - 1]) - (E(i) - E(i - 1))) <= (E(i) - E(i - 1)) \div 40 + 3)
      done == ev.atend = 1 /\ ev.trunc = 0
      F == (IF lit THEN {} ELSE IF EventsOK(TRUE, C, Tm, s.items, K, s.extras, NoBendLsb) THEN {"mus-pitch-lsb"} ELSE {"mus-events"}) \cup
           Lbl(~aligned \/ timeOK, "mus-timing") \cup Lbl(MetaOK(D), "mus-alien-event") \cup
           Lbl(done, "mus-not-at-end") \cup Lbl(OrderOKCalls(ev.calls), "mus-order")
  \* a score with a system event that fails in any way is one defect class (the converter loses byte synchronisation there)
  IN IF s.sys /\ F # {} THEN {"mus-system-event"} ELSE F
MusDetail(ev, s) ==
  LET D == AllLog(ev.calls)  C == ChanOf(D)  Tm == TimesOf(C)  K0 == s.ticks
      K  == IF Len(Tm) = Len(K0) + 1 /\ s.endFresh /\ s.endTick > K0[Len(K0)] THEN Append(K0, s.endTick) ELSE K0
      ex == Explain(TRUE, C, Tm, s.items, K, s.extras)
  IN IF ex # "" THEN ex ELSE ToString(<<"times", Tm, "ticks", K, "atend", ev.atend>>)

(* XMI *)
XmiPlayFails(ev, s, n) ==
  LET D == AllLog(ev.calls)  C == ChanOf(D)  Tm == TimesOf(C)
      sg == s.refs[n + 1]
      ok(r, nk(_)) == EventsOK(FALSE, C, Tm, r.items, r.ticks, <<>>, nk)
      lit == ok(sg, IdKey)
      aligned == Len(Tm) = Len(sg.ticks) /\ Increasing(Tm)
      timeOK == \A i \in DOMAIN sg.ticks : Abs(3 * Tm[i] - XmiTickUs3(sg.ticks[i])) <= 6
  IN (IF lit THEN {}
      ELSE IF \E j \in DOMAIN s.refs : j # n + 1 /\ ok(s.refs[j], IdKey) THEN {"xmi-selected-song"}
      ELSE IF ok(sg, Bank127) THEN {"xmi-bank127"} ELSE {"xmi-events"}) \cup
     (IF ~sg.tempo \/ ~aligned \/ timeOK THEN {}
      \* naming only: a tempo that is not a multiple of 25000 us and times that are off by a few percent at most
      ELSE IF sg.us % 25000 # 0 /\ \A i \in DOMAIN sg.ticks : Abs(3 * Tm[i] - XmiTickUs3(sg.ticks[i])) <= XmiTickUs3(sg.ticks[i]) \div 25 + 6
           THEN {"xmi-tempo-rounding"} ELSE {"xmi-timing"}) \cup Lbl(MetaOK(D), "xmi-alien-event") \cup
     Lbl(ev.atend = 1 /\ ev.trunc = 0, "xmi-not-at-end") \cup Lbl(OrderOKCalls(ev.calls), "xmi-order")
XmiDetail(ev, s, n) ==
  LET D == AllLog(ev.calls)  C == ChanOf(D)  Tm == TimesOf(C)  sg == s.refs[n + 1]
      ex == Explain(FALSE, C, Tm, sg.items, sg.ticks, <<>>)
  IN IF ex # "" THEN ToString(<<"song", n>>) \o " " \o ex ELSE ToString(<<"song", n, "times", Tm, "ticks", sg.ticks, "atend", ev.atend>>)

(* RMI / GMF: the wrapped song satisfies the reference of the bare song and is delivered exactly like the bare song *)
Pre(c, x) == c \o "-" \o x
SmfRefOK(D, its) ==
  LET Dk == [i \in DOMAIN D |-> KeyOfEntry(D[i])]  Rk == [i \in DOMAIN its |-> KeyOfItem(its[i])] IN
  \A k \in SeqToSet(Dk) \cup SeqToSet(Rk) : Count(Dk, LAMBDA y : y = k) = Count(Rk, LAMBDA y : y = k)
SongKey(s) == <<s.song.div, s.song.tracks>>
SmfPlayFails(ev, s) ==
  LET D == AllLog(ev.calls)  c == s.cont IN
  IF c = "smf" THEN {}
  ELSE Lbl(SmfRefOK(D, s.song.its), Pre(c, "reference")) \cup
       Lbl(~prev.valid \/ prev.key # SongKey(s) \/ prev.log = D, Pre(c, "differs-from-bare")) \cup
       Lbl(ev.atend = 1 /\ ev.trunc = 0, Pre(c, "not-at-end")) \cup Lbl(OrderOKCalls(ev.calls), Pre(c, "order"))

---------------------------------------------------------------------------
StepInit(ev) == /\ src' = Src0 /\ sel' = 0 /\ prev' = Prev0 /\ exec' = exec + 1 /\ UNCHANGED <<fails, drift>>
                /\ cnt' = [cnt EXCEPT !.execs = @ + 1]
\* everything derived from the source is computed once here (TLC does not memoise operator applications)
\* leg (C): what the implementation models say the real converter makes of these bytes (computed once per source)
CvtModel(kind, bytes) == IF kind = "mus" THEN LET o == Mus2Mid(bytes, 0) IN IF o.ok THEN [ok |-> TRUE, songs |-> << o >>] ELSE o
                         ELSE Xmi2Mid(bytes)
MkMusSrc(sc, bytes) ==
  LET wf == WellFormed(sc)
      its == IF wf THEN MusItems(sc) ELSE <<>>
      last == sc[Len(sc)]
  IN [kind |-> "mus", loaded |-> FALSE, wf |-> wf, items |-> its, ticks |-> TicksOf(its),
      extras |-> IF wf THEN MusExtras(sc) ELSE <<>>, sys |-> HasSys(sc), endTick |-> EndTick(sc),
      endFresh |-> last.ch # 15 /\ \A j \in 1..(Len(sc) - 1) : sc[j].ch # last.ch,
      chans |-> Cardinality({ sc[i].ch : i \in DOMAIN sc }), bytes |-> bytes]
\* malformed variants (only converted, never loaded): "cut" drops the last k score bytes and patches scoreLen, "poke" overwrites
\* score bytes; both exactly as harness/drive_conv.cpp does it
RECURSIVE PokeAll(_, _, _, _)
PokeAll(b, pk, i, start) == IF i > Len(pk) THEN b ELSE PokeAll([b EXCEPT ![start + (pk[i][1] % (Len(b) - start)) + 1] = pk[i][2]], pk, i + 1, start)
MusMangle(b, ev) ==
  LET start == 16 + 2 * Len(ev.ins)
      slen == Len(b) - start
      cut == IF "cut" \in DOMAIN ev /\ ev.cut > 0 /\ ev.cut <= slen THEN ev.cut ELSE 0
      b1 == IF cut = 0 THEN b ELSE [i \in 1..(Len(b) - cut) |-> IF i = 5 THEN (slen - cut) % 256 ELSE IF i = 6 THEN (slen - cut) \div 256 ELSE b[i]]
  IN IF "poke" \in DOMAIN ev /\ Len(b1) > start THEN PokeAll(b1, ev.poke, 1, start) ELSE b1
Mangled(ev) == ("cut" \in DOMAIN ev /\ ev.cut > 0) \/ ("poke" \in DOMAIN ev /\ ev.poke # <<>>)
StepMus(ev) ==
  LET sc == ev.ev
      wf == WellFormed(sc) /\ ~Mangled(ev) /\ ~CutShort(ev)
      mb == Keep(MusMangle(MusBytes(sc, ev.chans, ev.ins), ev), ev)
      enc == ev.bytes = <<>> \/ ev.bytes = mb
      model == IF CutShort(ev) THEN NoModel ELSE CvtModel("mus", mb)
  IN /\ src' = Carry([MkMusSrc(sc, mb) EXCEPT !.wf = wf] @@ [model |-> model, cutshort |-> CutShort(ev)])
     /\ fails' = AddFails(Tag(Lbl(enc, "harness-encoder"), ev, "MUS bytes differ from MusRef!MusBytes"))
     /\ cnt' = [cnt EXCEPT !.steps = @ + 1, !.encoders = @ + (IF ev.bytes # <<>> THEN 1 ELSE 0), !.skipped = @ + (IF wf THEN 0 ELSE 1),
                           !.musSys = @ + (IF HasSys(sc) THEN 1 ELSE 0), !.musOddPitch = @ + (IF HasOddPitch(sc) THEN 1 ELSE 0),
                           !.musMemVol = @ + Cardinality({ i \in DOMAIN sc : sc[i].k = "play" /\ sc[i].v = -1 }),
                           !.musPerc = @ + (IF \E i \in DOMAIN sc : sc[i].ch = 15 /\ sc[i].k # "end" THEN 1 ELSE 0),
                           !.musLongDelay = @ + Cardinality({ i \in DOMAIN sc : sc[i].dl >= 128 }),
                           !.refCrashPredicted = @ + (IF "crash" \in DOMAIN model THEN 1 ELSE 0),
                           !.refUndefined = @ + (IF "unmodelled" \in DOMAIN model /\ ~CutShort(ev) THEN 1 ELSE 0),
                           !.sessCutShort = @ + (IF CutShort(ev) THEN 1 ELSE 0)]
     /\ UNCHANGED <<sel, prev, exec, drift>>
MkXmiSrc(songs, bytes) ==
  LET f == [songs |-> songs]
      wf == XmiWellFormed(f)
      refs == [s \in DOMAIN songs |-> LET its == IF wf THEN XmiItems(songs[s]) ELSE <<>> IN
                 [items |-> its, ticks |-> TicksOf(its), tempo |-> CarriesTempo(songs[s]), us |-> TempoUs(songs[s])]] \o <<>>
  IN [kind |-> "xmi", loaded |-> FALSE, wf |-> wf, refs |-> refs, n |-> Len(songs), bytes |-> bytes]
StepXmi(ev) ==
  LET f == [songs |-> ev.songs]
      wf == XmiWellFormed(f) /\ ~Damaged(ev)
      xb0 == XmiBytes(f)
      xb == Keep(IF Poked(ev) THEN PokeAbs(xb0, ev.poke, 1) ELSE xb0, ev)
      enc == ev.bytes = <<>> \/ ev.bytes = xb
  IN /\ src' = Carry([MkXmiSrc(ev.songs, xb) EXCEPT !.wf = wf] @@ [model |-> IF Damaged(ev) THEN NoModel ELSE CvtModel("xmi", xb), cutshort |-> Damaged(ev)])
     /\ fails' = AddFails(Tag(Lbl(enc, "harness-encoder"), ev, "XMI bytes differ from XmiRef!XmiBytes"))
     /\ cnt' = [cnt EXCEPT !.steps = @ + 1, !.encoders = @ + (IF ev.bytes # <<>> THEN 1 ELSE 0), !.skipped = @ + (IF wf THEN 0 ELSE 1),
                           !.xmiMulti = @ + (IF Len(ev.songs) > 1 THEN 1 ELSE 0), !.sessCutShort = @ + (IF Damaged(ev) THEN 1 ELSE 0)]
     /\ UNCHANGED <<sel, prev, exec, drift>>
MkSong(ev) ==
  LET s0 == [div |-> ev.div, fmt |-> ev.fmt, tracks |-> ev.tracks]
      s1 == s0 @@ [tempi |-> TempoEvents(s0)]
      its == AllItems(s1)
  IN s1 @@ [its |-> its, len |-> (CHOOSE m \in { its[i].t : i \in DOMAIN its } : \A i \in DOMAIN its : its[i].t <= m) + 1000000]
StepSmf(ev) == /\ src' = Carry([kind |-> "smf", loaded |-> FALSE, wf |-> ~CutShort(ev), cont |-> ev.container, song |-> MkSong(ev)])
               /\ cnt' = [cnt EXCEPT !.steps = @ + 1, !.sessCutShort = @ + (IF CutShort(ev) THEN 1 ELSE 0)]
               /\ UNCHANGED <<sel, prev, exec, fails, drift>>
StepSelect(ev) == /\ sel' = ev.n /\ src' = [src EXCEPT !.sess = SessSelect(@, ev.n)] /\ UNCHANGED <<prev, exec, fails, drift>>
                  /\ cnt' = [cnt EXCEPT !.steps = @ + 1, !.xmiReselect = @ + (IF src.kind = "xmi" /\ src.loaded THEN 1 ELSE 0)]
StepLoad(ev) ==
  LET ok == ev.r = 0
      defined == src.kind # "none" /\ src.wf
      \* the session after this load: what is loaded is THIS file (when accepted), whatever was loaded before
      ns == IF defined THEN SessLoad(src.sess, src.kind, IF src.kind = "xmi" THEN src.n ELSE 1, ok) ELSE SessLoadUndefined(src.sess, ev.songs)
      \* the song count is that of the file of this load: judged for every file the formats define and after every rejection
      counted == (defined /\ (src.kind # "mus" \/ ~src.sys)) \/ ~ok
      cntF == IF counted THEN Lbl(SessCountOK(ns, ev.songs), IF SessXmi(ns) THEN "xmi-songs-count" ELSE "songs-count-without-xmi") ELSE {}
      now == IF ~ok THEN "rejected" ELSE IF defined THEN src.kind ELSE "undefined"
      f == CASE src.kind = "mus" -> Lbl(ok, IF src.sys THEN "mus-system-event" ELSE "mus-load-failed")
             [] src.kind = "xmi" -> Lbl(ok, "xmi-load-failed")
             [] src.kind = "smf" -> IF src.cont = "smf" THEN {}
                                    ELSE Lbl(ok, Pre(src.cont, "load-failed")) \cup Lbl(~ok \/ ev.len = src.song.len, Pre(src.cont, "length")) \cup
                                         Lbl(~ok \/ ev.tracks = Len(src.song.tracks), Pre(src.cont, "track-count"))
             [] OTHER -> {}
  IN /\ src' = [src EXCEPT !.loaded = ok /\ defined, !.sess = ns, !.loads = @ + 1, !.pk = now]
     /\ fails' = AddFails(Tag((IF defined THEN f ELSE {}) \cup cntF, ev,
                               ToString(<<"r", ev.r, ev.err, "songs", ev.songs, "len", ev.len, "load number", src.loads + 1, "after", src.pk, "session", ns>>)))
     /\ cnt' = [cnt EXCEPT !.steps = @ + 1, !.musLoads = @ + (IF src.kind = "mus" /\ ok THEN 1 ELSE 0),
                           !.xmiLoads = @ + (IF src.kind = "xmi" /\ ok THEN 1 ELSE 0),
                           !.xmiSongCounts = @ + (IF src.kind = "xmi" /\ ok THEN 1 ELSE 0),
                           !.sessLoads = @ + (IF src.loads > 0 THEN 1 ELSE 0),
                           !.sessXmiAfterXmi = @ + (IF now = "xmi" /\ src.pk = "xmi" THEN 1 ELSE 0),
                           !.sessXmiAfterOther = @ + (IF now = "xmi" /\ src.pk \in {"mus", "smf"} THEN 1 ELSE 0),
                           !.sessOtherAfterXmi = @ + (IF now \in {"mus", "smf"} /\ src.pk = "xmi" THEN 1 ELSE 0),
                           !.sessAfterRejected = @ + (IF now \in {"xmi", "mus", "smf"} /\ src.pk = "rejected" THEN 1 ELSE 0),
                           !.sessCounts = @ + (IF src.loads > 0 /\ counted THEN 1 ELSE 0)]
     /\ UNCHANGED <<sel, prev, exec, drift>>
StepPlay(ev) ==
  LET D == AllLog(ev.calls)
      C == ChanOf(D)
      go == src.kind # "none" /\ src.loaded
      \* the selected song: the readings the session leaves open (one, unless a request met a file it was out of range for)
      N == IF go /\ src.kind = "xmi" THEN SessSongs(src.sess) ELSE {0}
      n == IF Cardinality(N) = 1 THEN CHOOSE c \in N : TRUE
           ELSE LET good == { c \in N : XmiPlayFails(ev, src, c) = {} } IN
                IF good # {} THEN CHOOSE c \in good : TRUE ELSE Clamp(sel, 0, src.n - 1)
      f == IF ~go THEN {}
           ELSE CASE src.kind = "mus" -> MusPlayFails(ev, src)
                  [] src.kind = "xmi" -> XmiPlayFails(ev, src, n)
                  [] OTHER -> SmfPlayFails(ev, src)
      det == IF f = {} THEN ""
             ELSE CASE src.kind = "mus" -> MusDetail(ev, src)
                    [] src.kind = "xmi" -> XmiDetail(ev, src, n)
                    [] OTHER -> ToString(<<"delivered", Len(D), "reference", Len(src.song.its), "bare", IF prev.valid THEN Len(prev.log) ELSE -1>>)
      mus == go /\ src.kind = "mus"   xmi == go /\ src.kind = "xmi"   smf == go /\ src.kind = "smf"
      wrapped == smf /\ src.cont # "smf"
  IN /\ fails' = AddFails(Tag(f, ev, det))
     /\ prev' = IF smf /\ src.cont = "smf" THEN [valid |-> TRUE, key |-> SongKey(src), log |-> D] ELSE prev
     /\ cnt' = [cnt EXCEPT !.steps = @ + 1, !.skipped = @ + (IF go THEN 0 ELSE 1),
                   !.musPlays = @ + (IF mus THEN 1 ELSE 0), !.musEvents = @ + (IF mus THEN Len(C) ELSE 0),
                   !.musGroups = @ + (IF mus THEN Len(src.ticks) ELSE 0), !.musTimed = @ + (IF mus THEN Len(TimesOf(C)) ELSE 0),
                   !.musExtras = @ + (IF mus THEN Cardinality({ i \in DOMAIN C : C[i][3] = 11 /\ C[i][6] = <<7, 100>> }) ELSE 0),
                   !.musChans = @ + (IF mus THEN src.chans ELSE 0),
                   !.xmiPlays = @ + (IF xmi THEN 1 ELSE 0), !.xmiEvents = @ + (IF xmi THEN Len(C) ELSE 0),
                   !.xmiGroups = @ + (IF xmi THEN Len(src.refs[n + 1].ticks) ELSE 0),
                   !.xmiNoteOffs = @ + (IF xmi THEN Cardinality({ i \in DOMAIN src.refs[n + 1].items : src.refs[n + 1].items[i].syn }) ELSE 0),
                   !.xmiTimed = @ + (IF xmi /\ src.refs[n + 1].tempo THEN Len(TimesOf(C)) ELSE 0),
                   !.xmiSelected = @ + (IF xmi /\ n > 0 THEN 1 ELSE 0),
                   !.contPlays = @ + (IF wrapped THEN 1 ELSE 0), !.contEvents = @ + (IF wrapped THEN Len(D) ELSE 0),
                   !.contSame = @ + (IF wrapped /\ prev.valid /\ prev.key = SongKey(src) THEN 1 ELSE 0),
                   !.rmi = @ + (IF wrapped /\ src.cont = "rmi" THEN 1 ELSE 0), !.gmf = @ + (IF wrapped /\ src.cont = "gmf" THEN 1 ELSE 0),
                   !.sessPlays = @ + (IF go /\ src.loads > 1 THEN 1 ELSE 0), !.sessXmiPlays = @ + (IF xmi /\ src.loads > 1 THEN 1 ELSE 0),
                   !.sessSelPlays = @ + (IF xmi /\ src.loads > 1 /\ n > 0 THEN 1 ELSE 0), !.sessOpenSel = @ + (IF Cardinality(N) > 1 THEN 1 ELSE 0)]
     /\ UNCHANGED <<src, sel, exec, drift>>
---------------------------------------------------------------------------
(* leg (C): the recorded output of the real converter against the implementation models *)
FirstDiff(a, b) == CHOOSE i \in 1..(Min(Len(a), Len(b)) + 1) :
                     (i > Len(a) \/ i > Len(b) \/ a[i] # b[i]) /\ \A j \in 1..(i - 1) : a[j] = b[j]
At(s, i) == IF i <= Len(s) THEN s[i] ELSE "none"
\* "" when the recorded track equals the model's (a capped record is compared over the recorded prefix)
TrackDiff(mt, rt) ==
  LET n == Len(rt.ev)
      mev == IF rt.trunc = 1 THEN SubSeq(mt.ev, 1, Min(n, Len(mt.ev))) ELSE mt.ev
      mrs == IF rt.trunc = 1 THEN SubSeq(mt.rs, 1, Min(n, Len(mt.rs))) ELSE mt.rs
  IN IF mev # rt.ev THEN LET i == FirstDiff(mev, rt.ev) IN ToString(<<"event", i, "model", At(mev, i), "real", At(rt.ev, i)>>)
     ELSE IF mrs # rt.rs THEN LET i == FirstDiff(mrs, rt.rs) IN ToString(<<"running-status-flag", i, "model", At(mrs, i), "real", At(rt.rs, i)>>)
     ELSE IF mt.len # rt.len THEN ToString(<<"track-length", "model", mt.len, "real", rt.len>>)
     ELSE IF rt.clean # 1 THEN ToString(<<"the recorded track does not parse cleanly", rt.clean>>)
     ELSE ""
SongDiff(ms, rs) ==
  IF <<ms.fmt, ms.ntr, ms.div>> # <<rs.fmt, rs.ntr, rs.div>> THEN ToString(<<"header fmt/tracks/division", "model", <<ms.fmt, ms.ntr, ms.div>>, "real", <<rs.fmt, rs.ntr, rs.div>>>>)
  ELSE IF ms.tempo # rs.tempo THEN ToString(<<"tempo bytes", "model", ms.tempo, "real", rs.tempo>>)
  ELSE IF Len(ms.tracks) # Len(rs.tracks) THEN ToString(<<"track chunks", "model", Len(ms.tracks), "real", Len(rs.tracks)>>)
  ELSE IF rs.tail # 0 THEN ToString(<<"bytes after the last track chunk", rs.tail>>)
  ELSE LET D == { t \in DOMAIN ms.tracks : TrackDiff(ms.tracks[t], rs.tracks[t]) # "" } IN
       IF D = {} THEN "" ELSE LET t == CHOOSE x \in D : \A y \in D : x <= y IN ToString(<<"track", t>>) \o " " \o TrackDiff(ms.tracks[t], rs.tracks[t])
CvtDiff(m, ev) ==
  IF "crash" \in DOMAIN m THEN ToString(<<"the model predicts a crash in mus2mid_writevarlen (delta time >= 2^28)", "real", ev.r>>)
  ELSE IF m.ok # (ev.r = 0) THEN ToString(<<"result", "model", IF m.ok THEN "converted" ELSE "rejected", "real", ev.r>>)
  ELSE IF ~m.ok THEN ""
  ELSE IF Len(m.songs) # Len(ev.songs) THEN ToString(<<"songs", "model", Len(m.songs), "real", Len(ev.songs)>>)
  ELSE LET D == { s \in DOMAIN m.songs : SongDiff(m.songs[s], ev.songs[s]) # "" } IN
       IF D = {} THEN "" ELSE LET s == CHOOSE x \in D : \A y \in D : x <= y IN ToString(<<"song", s - 1>>) \o " " \o SongDiff(m.songs[s], ev.songs[s])
StepCvt(ev) ==
  LET go == src.kind \in {"mus", "xmi"} /\ "model" \in DOMAIN src /\ ev.kind = src.kind /\ ~src.cutshort
      m == IF go THEN src.model ELSE [ok |-> FALSE, unmodelled |-> TRUE]
      skip == ~go \/ "unmodelled" \in DOMAIN m
      d == IF skip THEN "" ELSE CvtDiff(m, ev)
      nev == IF skip \/ ~m.ok THEN 0 ELSE SumSeq([s \in DOMAIN m.songs |-> Len(m.songs[s].tracks[1].ev)])
  IN /\ drift' = IF d # "" /\ Len(drift) < 4 THEN Append(drift, [l |-> l, x |-> exec, e |-> "Cvt-" \o src.kind, d |-> d]) ELSE drift
     /\ cnt' = [cnt EXCEPT !.steps = @ + 1, !.refined = @ + (IF skip THEN 0 ELSE 1), !.refskip = @ + (IF skip THEN 1 ELSE 0),
                           !.drifted = @ + (IF d # "" THEN 1 ELSE 0), !.refEvents = @ + nev,
                           !.refMus = @ + (IF ~skip /\ src.kind = "mus" THEN 1 ELSE 0), !.refXmi = @ + (IF ~skip /\ src.kind = "xmi" THEN 1 ELSE 0),
                           !.refSongs = @ + (IF skip \/ ~m.ok THEN 0 ELSE Len(m.songs)),
                           !.refRejected = @ + (IF ~skip /\ ~m.ok /\ ev.r # 0 THEN 1 ELSE 0)]
     /\ UNCHANGED <<src, sel, prev, exec, fails>>
StepOther(ev) == UNCHANGED <<src, sel, prev, exec, fails, drift>> /\ cnt' = [cnt EXCEPT !.steps = @ + 1]

Next ==
  \/ /\ l <= Len(T) /\ l' = l + 1
     /\ LET ev == T[l] IN
        CASE ev.e = "Init" -> StepInit(ev)
          [] ev.e = "Mus" -> StepMus(ev)
          [] ev.e = "Xmi" -> StepXmi(ev)
          [] ev.e = "Smf" -> StepSmf(ev)
          [] ev.e = "Select" -> StepSelect(ev)
          [] ev.e = "Load" -> StepLoad(ev)
          [] ev.e = "Play" -> StepPlay(ev)
          [] ev.e = "Cvt" -> StepCvt(ev)
          [] ev.e = "End" -> UNCHANGED <<src, sel, prev, exec, fails, cnt, drift>>
          [] OTHER -> StepOther(ev)
  \/ /\ l = Len(T) + 1 /\ l' = l + 1
     /\ PrintT(<<"RESULT", ToJson([n |-> Len(T), fails |-> fails, cnt |-> cnt, drift |-> drift])>>)
     /\ UNCHANGED <<src, sel, prev, exec, fails, cnt, drift>>
Spec == Init /\ [][Next]_vars
=============================================================================
