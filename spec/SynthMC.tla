------------------------------- MODULE SynthMC -------------------------------
(* Small-scope instance of the Synth model for exhaustive checking (leg A) and for generating
   behaviours that are replayed on the real library (simulation mode prints BEHAVIOUR lines).
   Scope: MIDI channels 0 (melodic) and 9 (percussion), keys 60/61 and drum 35, NC chip
   channels, the alphabet below.  The reference history h of SynthProps runs alongside the
   model; `bad` collects violated monitor labels. *)
EXTENDS Synth, Json
CONSTANTS NC, MaxDepth, ArpOn, AllocMode, EmitDepth

VARIABLES S, h, bad, hist
vars == <<S, h, bad, hist>>
View == <<S, h, bad>>

I(i, id, kon, koff, drum, blank) ==
  [i |-> i, id |-> id, kon |-> kon, koff |-> koff, drum |-> drum, blank |-> blank, noff |-> 0, veloff |-> 0]
Bl == << [bk |-> 0, ins |-> << I(0, 1, 500, 300, 0, FALSE), I(1, 9, 500, 300, 0, TRUE), I(2, 2, 40000, 1000, 0, FALSE), I(3, 3, 50, 20, 0, FALSE) >>],
         [bk |-> 32768, ins |-> << I(35, 10, 100, 50, 40, FALSE), I(36, 11, 200, 100, 0, FALSE), I(37, 12, 200, 100, 0, TRUE),
                                  I(38, 13, 40000, 500, 45, FALSE) >>] >>
Chans == <<0, 9>>

Alphabet == <<
  [e |-> "NoteOn", ch |-> 0, k |-> 60, v |-> 100], [e |-> "NoteOn", ch |-> 0, k |-> 61, v |-> 100],
  [e |-> "NoteOn", ch |-> 9, k |-> 35, v |-> 100],
  [e |-> "NoteOff", ch |-> 0, k |-> 60], [e |-> "NoteOff", ch |-> 0, k |-> 61], [e |-> "NoteOff", ch |-> 9, k |-> 35],
  [e |-> "NoteOn", ch |-> 0, k |-> 60, v |-> 0],
  [e |-> "CC", ch |-> 0, n |-> 64, v |-> 127], [e |-> "CC", ch |-> 0, n |-> 64, v |-> 0],
  [e |-> "CC", ch |-> 0, n |-> 66, v |-> 127], [e |-> "CC", ch |-> 0, n |-> 66, v |-> 0],
  [e |-> "CC", ch |-> 0, n |-> 120, v |-> 0], [e |-> "CC", ch |-> 0, n |-> 121, v |-> 0], [e |-> "CC", ch |-> 0, n |-> 123, v |-> 0],
  [e |-> "Panic"], [e |-> "ResetState"],
  [e |-> "Patch", ch |-> 0, p |-> 1], [e |-> "Patch", ch |-> 0, p |-> 2],
  [e |-> "Gen", fr |-> 512], [e |-> "Gen", fr |-> 4000],
  [e |-> "CC", ch |-> 0, n |-> 65, v |-> 127], [e |-> "CC", ch |-> 0, n |-> 5, v |-> 1] >>

\* Alphabet of the input dimension "short percussion hits" (C05: 30 ms minimum life of drum notes): two drum keys on
\* channel 9, Gen steps of 5 / 15 / 31.7 ms (sums never hit the 30 ms boundary exactly), channel 0 turned into an XG drum
\* channel by bank MSB 127.  A configuration selects it with  CONSTANT Alphabet <- DrumAlphabet  (lib/gen_synth.py
\* MC_DRUM_ALPHABET lists the same commands in the same order).
DrumAlphabet == <<
  [e |-> "NoteOn", ch |-> 9, k |-> 35, v |-> 100], [e |-> "NoteOff", ch |-> 9, k |-> 35],
  [e |-> "NoteOn", ch |-> 9, k |-> 36, v |-> 100], [e |-> "NoteOff", ch |-> 9, k |-> 36],
  [e |-> "Gen", fr |-> 220], [e |-> "Gen", fr |-> 660], [e |-> "Gen", fr |-> 1400],
  [e |-> "CC", ch |-> 0, n |-> 0, v |-> 127], [e |-> "NoteOn", ch |-> 0, k |-> 35, v |-> 100], [e |-> "NoteOff", ch |-> 0, k |-> 35] >>

Init ==
  /\ S = Init0(Chans, NC, NC, Bl, 44100, ArpOn, IF AllocMode = 3 THEN -1 ELSE AllocMode, 0)
  /\ h = RefInit({0, 9}, Bl, NC, 0)
  /\ bad = {}
  /\ hist = <<>>

WithUs(ev) == IF ev.e = "Gen" THEN [ev EXCEPT !.fr = ev.fr] @@ [us |-> (ev.fr * 10000) \div 441] ELSE ev

Next ==
  \E i \in DOMAIN Alphabet :
    LET ev   == Alphabet[i]
        res  == Step(S, ev)
        pre  == Proj(S)
        post == Proj(res.s)
        evr  == WithUs(ev) @@ [r |-> res.r]
        h1   == RefStep(h, evr, post.nc)
        isOn == ev.e = "NoteOn" /\ ev.v > 0
        p    == IF ev.e = "NoteOn" THEN <<ev.ch, ev.k>> ELSE <<0, 0>>
        ins  == IF isOn THEN Doc(h.bl, h.mode, RefView(h, ev.ch), ev.k) ELSE BlankIns
        f06  == IF isOn THEN C06Fails(pre, post, p, res.r, ins.blank) ELSE {}
        \* C12 at model level: the transcribed lookup agrees with the documented rule
        f12  == IF isOn /\ Resolve(S, McOf(S, ev.ch), ev.k).meta # ins THEN {"c12-lookup"} ELSE {}
    IN /\ S' = res.s
       /\ h' = h1
       /\ bad' = bad \cup C04Fails(post) \cup C05Fails(h1, post) \cup f06 \cup f12
       /\ hist' = Append(hist, i)

Spec == Init /\ [][Next]_vars
NoBad == bad = {}
DepthBound == TLCGet("level") < MaxDepth
\* simulation mode: print each finished behaviour (sequence of alphabet indices)
Emit == (Len(hist) = EmitDepth) => PrintT(<<"BEHAVIOUR", ToJson(hist)>>)
=============================================================================
