------------------------------ MODULE LoaderMC ------------------------------
(* Leg A of C01: small-scope exhaustive exploration of the loader model over input SHAPES.

   A shape is  container/header variant x a sequence of grammar items (events with their delta, MUS
   score events, XMI chunks/events) x a finisher (truncation point, declared-length class, FF as the
   last byte, unterminated variable-length quantity, ...) x the song number selected before the load.
   TLC enumerates every shape up to DepthTrk / DepthMus / DepthXmi items, concretises it to bytes (Bytes) and runs the model
   (Loader!Load) on it.

   Two uses:
   * Repaired = TRUE, INVARIANT SafeInv: the loaders WITH the suggested guards have no hazard left on
     any shape of the scope (model checking proper).
   * Repaired = FALSE, EmitOn = TRUE, INVARIANT EmitInv: the loaders as they are; every finished shape is
     printed as a SHAPE line (bytes + predicted outcome) and replayed on the real library by
     lib/gen_loader.py / harness/drive_loader.  The hazards the as-is model predicts are the candidate
     defects; they are counted by lib/checks_loader.py (INVARIANT SafeInv on this configuration is violated
     by construction, which is why it is not declared there). *)
EXTENDS Loader, Json, TLC
CONSTANTS Fams,       \* subset of {"trk", "mus", "xmi", "misc"}
          DepthTrk, DepthMus, DepthXmi,   \* items per shape
          Wide,       \* TRUE: full item alphabet at every depth; FALSE: full alphabet for the first item, core alphabet after it
          EmitOn      \* TRUE: print a SHAPE line for every finished shape
VARIABLE sh
vars == <<sh>>

In(b) == [head |-> b, unit |-> <<>>, times |-> 0, tail |-> <<>>]
BE32(n) == << 0, (n \div 65536) % 256, (n \div 256) % 256, n % 256 >>
BE16b(n) == << (n \div 256) % 256, n % 256 >>
LE16b(n) == << n % 256, (n \div 256) % 256 >>
Zeros(n) == [i \in 1..n |-> 0]
Wrap(k) == <<129, 255, 255, 255, 255, 255, 255, 255, 255, 128 - k>>      \* variable-length quantity 2^64 - k, 1 <= k <= 128
Cut(s, n) == SubSeq(s, 1, Max(Len(s) - n, 0))

---------------------------------------------------------------------------
(* track-based containers: SMF, RMI, GMF, CMF, EA-MUS (RSXX) *)
TrkItems == <<
  <<0, 144, 60, 100>>,                         \*  1 note on
  <<96, 60, 0>>,                               \*  2 running status (note on, velocity 0)
  <<0, 176, 7, 100>>,                          \*  3 controller
  <<0, 176, 111, 0>>,                          \*  4 controller 111 (loop start)
  <<0, 192, 5>>,                               \*  5 program change
  <<0, 208, 64>>,                              \*  6 channel pressure
  <<129, 0, 224, 0, 64>>,                      \*  7 pitch bend after a 2-byte delta
  <<0, 240, 3, 126, 127, 247>>,                \*  8 SysEx
  <<0, 247, 0>>,                               \*  9 F7 escape, length 0
  <<0, 240, 128, 128, 1, 85>>,                 \* 10 SysEx, overlong length encoding
  <<0, 240, 127, 0>>,                          \* 11 SysEx declaring more than the track has
  <<0, 240>> \o Wrap(2),                       \* 12 SysEx length 2^64-2 (cursor moves back)
  <<0, 240>> \o Wrap(100),                     \* 13 SysEx length 2^64-100 (cursor leaves the buffer)
  <<0, 255, 1, 2, 65, 66>>,                    \* 14 text
  <<0, 255, 3, 1, 84>>,                        \* 15 title
  <<0, 255, 6, 9, 108, 111, 111, 112, 83, 116, 97, 114, 116>>,   \* 16 marker loopStart
  <<0, 255, 6, 7, 108, 111, 111, 112, 69, 110, 100>>,            \* 17 marker loopEnd
  <<0, 255, 81, 3, 7, 161, 32>>,               \* 18 tempo
  <<0, 255, 81, 3, 0, 0, 0>>,                  \* 19 tempo 0
  <<0, 255, 81, 0>>,                           \* 20 tempo without data
  <<0, 255, 47, 0>>,                           \* 21 end of track
  <<0, 255, 1, 127>>,                          \* 22 meta declaring more than the track has
  <<0, 255, 1>> \o Wrap(1),                    \* 23 meta length 2^64-1
  <<0, 255, 228, 0>>,                          \* 24 meta type E4 (internal loop-stack-begin subtype), no data
  <<0, 255, 228, 1, 2>>,                       \* 25 meta type E4 with data
  <<0, 255, 229, 0>>,                          \* 26 meta type E5 (loop-stack end)
  <<0, 255, 127, 1, 0>>,                       \* 27 sequencer specific
  <<0, 241>>,                                  \* 28 F1, no data
  <<0, 242, 1, 2>>,                            \* 29 song position
  <<0, 243, 1>>,                               \* 30 song select
  <<0, 255, 9, 1, 65>>,                        \* 31 device switch
  <<0, 255, 231, 0>>,                          \* 32 meta type E7 (callback trigger), no data
  <<0, 255, 227, 1, 5>>,                       \* 33 meta type E3 (raw OPL), one byte
  <<128, 128, 128, 128, 0, 153, 36, 127>>,     \* 34 drum note after an overlong 5-byte delta
  <<0, 255, 1, 129, 0>> \o Zeros(128)          \* 35 text with a 2-byte length (128 bytes)
>>
TrkCore == {1, 2, 8, 12, 14, 21, 23, 24}
TrkContainers == <<"smf", "smf2a", "smf2b", "rmi", "gmf", "cmf", "rsxx", "smf-ntr+", "smf-ntr0", "smf-div0", "smf-ntrmax", "smf-fmt">>
TrkFins == 1..10
FinName == <<"exact", "cut1", "cut2", "decl+1", "decl-1", "lastFF", "openVLQ", "decl4G", "decl512M", "eot+garbage">>
FinOk(c, f) == c \in {"smf", "smf2a", "smf2b", "rmi"} \/ f \in {1, 2, 3, 6, 7, 10}

TrkData(body, f) ==
  CASE f = 2 -> Cut(body, 1) [] f = 3 -> Cut(body, 2) [] f = 6 -> body \o <<255>> [] f = 7 -> body \o <<129>>
    [] f = 10 -> body \o <<0, 255, 47, 0, 1, 2, 3>> [] OTHER -> body
TrkDecl(d, f) ==
  CASE f = 4 -> BE32(Len(d) + 1) [] f = 5 -> BE32(Max(Len(d) - 1, 0)) [] f = 8 -> <<255, 255, 255, 240>> [] f = 9 -> <<32, 0, 0, 0>>
    [] OTHER -> BE32(Len(d))
Chunk(d, f) == MTrk \o TrkDecl(d, f) \o d
SmfHdr(fmt, ntr, div) == MThd6 \o BE16b(fmt) \o BE16b(ntr) \o BE16b(div)
Valid == <<0, 255, 47, 0>>
TrkBytes(c, body, f) ==
  LET d == TrkData(body, f) IN
  CASE c = "smf"        -> SmfHdr(0, 1, 96) \o Chunk(d, f)
    [] c = "smf2a"      -> SmfHdr(1, 2, 96) \o Chunk(Valid, 1) \o Chunk(d, f)
    [] c = "smf2b"      -> SmfHdr(1, 2, 96) \o Chunk(d, f) \o Chunk(Valid, 1)
    [] c = "smf-ntr+"   -> SmfHdr(1, 2, 96) \o Chunk(d, f)
    [] c = "smf-ntr0"   -> SmfHdr(0, 0, 96) \o Chunk(d, f)
    [] c = "smf-div0"   -> SmfHdr(0, 1, 0) \o Chunk(d, f)
    [] c = "smf-ntrmax" -> SmfHdr(1, 65535, 96) \o Chunk(d, f)
    [] c = "smf-fmt"    -> SmfHdr(32767, 1, 32768 + 96) \o Chunk(d, f)
    [] c = "rmi"        -> RIFF \o <<0, 0, 0, 0, 82, 77, 73, 68, 100, 97, 116, 97, 0, 0, 0, 0>> \o SmfHdr(0, 1, 96) \o Chunk(d, f)
    [] c = "gmf"        -> GMF1 \o <<0, 0, 0>> \o d \o (IF Len(d) < 7 THEN Zeros(7 - Len(d)) ELSE <<>>)
    [] c = "cmf"        -> CTMF \o <<1, 1>> \o LE16b(40) \o LE16b(56) \o LE16b(96) \o LE16b(96) \o Zeros(6) \o Zeros(16) \o LE16b(1) \o LE16b(120) \o Zeros(16) \o d
    [] c = "rsxx"       -> <<93>> \o Zeros(76) \o RSXXU \o Zeros(10) \o d
    [] OTHER            -> d

---------------------------------------------------------------------------
(* DMX MUS: header (scoreLen, scoreStart, channels) + score events *)
MusItems == <<
  <<0, 60>>,                 \*  1 key off, channel 0
  <<16, 60>>,                \*  2 key on
  <<16, 188, 100>>,          \*  3 key on with volume
  <<33, 128>>,               \*  4 pitch wheel, channel 1
  <<48, 10>>,                \*  5 system event (all sounds off): one operand in the format, two read by the converter
  <<48, 15>>,                \*  6 system event, unmapped controller
  <<64, 0, 5>>,              \*  7 program change
  <<64, 3, 100>>,            \*  8 volume
  <<64, 15, 0>>,             \*  9 controller, unmapped
  <<96>>,                    \* 10 score end
  <<80>>,                    \* 11 event type 5
  <<112>>,                   \* 12 event type 7
  <<144, 60, 5>>,            \* 13 key on + last flag, 1 delay byte
  <<128, 60, 129, 0>>,       \* 14 key off + last flag, 2 delay bytes
  <<31, 36>>,                \* 15 key on, channel 15 (percussion)
  <<144, 60, 255>>,          \* 16 key on + last flag, delay byte with continuation and nothing after
  <<16, 188>>,               \* 17 key on announcing a volume byte that is not there
  <<64, 0>>                  \* 18 program change without its operand
>>
MusCore == {2, 5, 10, 13, 16, 17}
MusContainers == <<"mus", "mus-ch16", "mus-len+", "mus-len-", "mus-start+", "mus-pad">>
MusFins == 1..4             \* exact, cut1, cut2, trailing byte
MusBytes(c, body, f) ==
  LET d == CASE f = 2 -> Cut(body, 1) [] f = 3 -> Cut(body, 2) [] OTHER -> body
      trail == IF f = 4 THEN <<0>> ELSE <<>>
      start == IF c = "mus-pad" THEN 18 ELSE 16
      sl == CASE c = "mus-len+" -> Len(d) + 1 [] c = "mus-len-" -> Max(Len(d) - 1, 0) [] OTHER -> Len(d)
      ss == IF c = "mus-start+" THEN start + 1 ELSE start
      ch == IF c = "mus-ch16" THEN 16 ELSE 2 IN
  MUS1A \o LE16b(sl) \o LE16b(ss) \o LE16b(ch) \o LE16b(0) \o LE16b(1) \o <<0, 0>> \o Zeros(start - 16) \o d \o trail

---------------------------------------------------------------------------
(* AIL XMI: FORM XDIR { INFO } CAT XMID { FORM XMID { [RBRN] EVNT } } *)
XmiItems == <<
  <<144, 60, 100, 10>>,                 \*  1 note on with duration
  <<5, 176, 7, 100>>,                   \*  2 delay 5, controller
  <<192, 5>>,                           \*  3 program change
  <<255, 81, 3, 7, 161, 32>>,           \*  4 tempo
  <<255, 81, 3, 0, 0, 1>>,              \*  5 tempo so small that the computed division is 0
  <<255, 1, 2, 65, 66>>,                \*  6 text
  <<240, 3, 126, 127, 247>>,            \*  7 SysEx
  <<255, 47, 0>>,                       \*  8 end of track
  <<176, 116, 2>>,                      \*  9 controller 116 (for-loop)
  <<144, 200, 100, 10>>,                \* 10 note on, key >= 0x80
  <<241, 0>>,                           \* 11 status F1
  <<255, 1, 127>>,                      \* 12 text declaring more than the file has
  <<144, 60, 100, 255, 255, 255, 127>>, \* 13 note on with a 4-byte duration
  <<224, 0>>                            \* 14 pitch bend missing its second byte
>>
XmiCore == {1, 4, 8, 12}
XmiContainers == <<"xmi", "xmi-len0", "xmi-lenmax", "xmi-tracks0", "xmi-tracks2", "xmi-noinfo", "xmi-infoneg", "xmi-infoshort",
                   "xmi-nocat", "xmi-noxmid", "xmi-rbrn", "xmi-rbrnbig", "xmi-evlenmax", "xmi-evlenneg", "xmi-timbneg", "xmi-two", "xmi-sel-1", "xmi-sel5", "xmi-loopchunk">>
XmiFins == 1..4             \* exact, cut1, cut2, cut-to-EVNT-header
Ch(tag, len4, data) == tag \o len4 \o data \o (IF Len(data) % 2 = 1 THEN <<0>> ELSE <<>>)
Song(ev, evlen4, pre) == FORM \o BE32(4 + Len(pre) + 8 + Len(ev) + (Len(ev) % 2)) \o XMID \o pre \o Ch(EVNT, evlen4, ev)
XmiBytes(c, body, f) ==
  LET ev == body
      evlen == CASE c = "xmi-evlenmax" -> <<255, 255, 255, 255>> [] c = "xmi-evlenneg" -> <<255, 255, 255, 240>> [] OTHER -> BE32(Len(ev))
      pre == CASE c = "xmi-rbrn" -> Ch(RBRN, BE32(8), <<1, 0, 3, 0, 2, 0, 0, 0>>)
               [] c = "xmi-rbrnbig" -> Ch(RBRN, BE32(65534), <<255, 255>>)
               [] c = "xmi-timbneg" -> Ch(<<84, 73, 77, 66>>, <<255, 255, 255, 248>>, <<1, 0, 0, 0>>)
               [] OTHER -> <<>>
      ntr == CASE c = "xmi-tracks0" -> 0 [] c \in {"xmi-tracks2", "xmi-two"} -> 2 [] OTHER -> 1
      info == CASE c = "xmi-noinfo" -> Ch(<<74, 85, 78, 75>>, BE32(2), <<1, 0>>)
                [] c = "xmi-infoneg" -> Ch(<<74, 85, 78, 75>>, <<255, 255, 255, 248>>, <<1, 0>>) \o Ch(INFO, BE32(2), <<1, 0>>)
                [] c = "xmi-infoshort" -> Ch(INFO, BE32(1), <<1, 0>>)
                [] c = "xmi-loopchunk" -> Ch(<<74, 85, 78, 75>>, <<255, 255, 255, 247>>, <<>>)
                [] OTHER -> Ch(INFO, BE32(2), LE16b(ntr))
      xdirlen == CASE c = "xmi-len0" -> BE32(0) [] c \in {"xmi-lenmax", "xmi-loopchunk"} -> <<255, 255, 255, 255>> [] OTHER -> BE32(4 + Len(info))
      songs == Song(ev, evlen, pre) \o (IF c = "xmi-two" THEN Song(<<144, 62, 100, 10, 255, 47, 0>>, BE32(7), <<>>) ELSE <<>>)
      cat == (IF c = "xmi-nocat" THEN <<67, 65, 84, 88>> ELSE CAT) \o BE32(4 + Len(songs)) \o (IF c = "xmi-noxmid" THEN <<88, 77, 73, 69>> ELSE XMID)
      all == FORM \o xdirlen \o XDIR \o info \o cat \o songs
      tailLen == Len(ev) + (Len(ev) % 2) IN
  CASE f = 2 -> Cut(all, 1) [] f = 3 -> Cut(all, 2) [] f = 4 -> Cut(all, tailLen) [] OTHER -> all
XmiSel(c) == CASE c = "xmi-sel-1" -> -1 [] c = "xmi-sel5" -> 5 [] OTHER -> 0

---------------------------------------------------------------------------
(* everything else: short files, bare magics, the IMF and EA-MUS detectors, junk *)
MiscItems == <<
  <<>>, <<0>>, <<77, 84, 104, 100>>, MThd6, MThd6 \o <<0, 0, 0, 1, 0>>, MThd6 \o <<0, 0, 0, 1, 0, 96>>,
  RIFF \o Zeros(9), RIFF \o Zeros(10), RIFF \o Zeros(16) \o MThd6 \o <<0, 0, 0, 0, 0, 96>>,
  GMF1 \o Zeros(9), GMF1 \o Zeros(10), MUS1A \o Zeros(9), MUS1A \o Zeros(10), MUS1A \o <<1, 0, 14, 0, 0, 0, 0, 0, 0, 0>>,
  FORM \o Zeros(4) \o XDIR \o <<0>>, FORM \o Zeros(4) \o XDIR \o <<0, 0>>, FORM \o Zeros(4) \o XMID \o <<0, 0>>,
  CTMF \o Zeros(10), CTMF \o Zeros(15), CTMF \o Zeros(16), CTMF \o Zeros(35), CTMF \o Zeros(36),
  CTMF \o <<1, 1>> \o LE16b(40) \o LE16b(40) \o LE16b(96) \o LE16b(0) \o Zeros(22) \o LE16b(0) \o LE16b(120) \o <<0, 255, 47, 0>>,
  CTMF \o <<1, 1>> \o LE16b(40) \o LE16b(40) \o LE16b(96) \o LE16b(96) \o Zeros(22) \o LE16b(9) \o LE16b(120) \o <<0, 255, 47, 0>>,
  CTMF \o <<1, 1>> \o LE16b(40) \o LE16b(999) \o LE16b(96) \o LE16b(96) \o Zeros(22) \o LE16b(0) \o LE16b(120),
  <<4, 0, 1, 1, 0, 0>> \o Zeros(8),                        \* IMF type 1: first words larger than second words
  <<0, 0, 1, 1, 0, 0>> \o Zeros(8),                        \* IMF type 0
  <<4, 0, 0, 0, 1, 1>> \o Zeros(8),                        \* not IMF: second words larger
  <<4, 255>> \o Zeros(12), <<252, 255, 1, 1>> \o Zeros(10),  \* sign-extended header bytes
  <<93>> \o Zeros(76) \o RSXXU \o Zeros(10) \o <<144, 60, 100, 0>>,
  <<93>> \o Zeros(76) \o RSXXU \o Zeros(10),
  <<93>> \o Zeros(76) \o RSXXU,
  <<127>> \o Zeros(110) \o RSXXU \o Zeros(10) \o <<255>>,
  <<1, 2, 3, 4, 5, 6, 7, 8, 9, 10, 11, 12, 13, 14>>, <<255>> \o Zeros(13)
>>

---------------------------------------------------------------------------
ItemsOf(fam) == CASE fam = "trk" -> TrkItems [] fam = "mus" -> MusItems [] fam = "xmi" -> XmiItems [] OTHER -> MiscItems
CoreOf(fam) == CASE fam = "trk" -> TrkCore [] fam = "mus" -> MusCore [] fam = "xmi" -> XmiCore [] OTHER -> {}
ContainersOf(fam) == CASE fam = "trk" -> TrkContainers [] fam = "mus" -> MusContainers [] fam = "xmi" -> XmiContainers [] OTHER -> <<"misc">>
FinsOf(fam) == CASE fam = "trk" -> TrkFins [] fam = "mus" -> MusFins [] fam = "xmi" -> XmiFins [] OTHER -> {1}
DepthOf(fam) == CASE fam = "trk" -> DepthTrk [] fam = "mus" -> DepthMus [] fam = "xmi" -> DepthXmi [] OTHER -> 1

RECURSIVE Body(_, _, _)
Body(tab, items, i) == IF i > Len(items) THEN <<>> ELSE tab[items[i]] \o Body(tab, items, i + 1)
Bytes(s) ==
  LET body == Body(ItemsOf(s.fam), s.items, 1) IN
  CASE s.fam = "trk" -> TrkBytes(s.c, body, s.fin)
    [] s.fam = "mus" -> MusBytes(s.c, body, s.fin)
    [] s.fam = "xmi" -> XmiBytes(s.c, body, s.fin)
    [] OTHER -> body
Sel(s) == IF s.fam = "xmi" THEN XmiSel(s.c) ELSE 0
Outcome(s) == Load(In(Bytes(s)), Sel(s))
EmitShape(s) == PrintT(<<"SHAPE", ToJson([c |-> s.c, items |-> s.items, fin |-> s.fin, sel |-> Sel(s), b |-> Bytes(s), o |-> Outcome(s)])>>)

Init == \E fam \in Fams : \E c \in DOMAIN ContainersOf(fam) : sh = [fam |-> fam, c |-> ContainersOf(fam)[c], items |-> <<>>, fin |-> 0]
Next ==
  /\ sh.fin = 0
  /\ \/ /\ Len(sh.items) < DepthOf(sh.fam)
        /\ \E i \in DOMAIN ItemsOf(sh.fam) :
             /\ Wide \/ sh.items = <<>> \/ i \in CoreOf(sh.fam)
             /\ sh' = [sh EXCEPT !.items = Append(@, i)]
     \/ \E f \in FinsOf(sh.fam) :
          /\ sh.fam # "trk" \/ FinOk(sh.c, f)
          /\ sh.fam # "misc" \/ sh.items # <<>>
          /\ sh' = [sh EXCEPT !.fin = f]
Spec == Init /\ [][Next]_vars

SafeInv == sh.fin # 0 => Safe(Outcome(sh))
EmitInv == (EmitOn /\ sh.fin # 0) => EmitShape(sh)      \* as an INVARIANT: evaluated once per distinct state, always TRUE
=============================================================================
