------------------------------ MODULE ApiSurface ------------------------------
(* C03: the exported surface of include/opnmidi.h (90 functions) as a call generator with arguments
   drawn from boundary classes per parameter type, over an abstract state that tracks only what the
   predictions need: instance alive, chip count (stored / applied), emulator id, bank set, loaded song,
   volume model in force, master volume, and per MIDI channel the controller values that are used as
   table indices (volume, expression, patch, XG-percussion flag) plus "a sounding note is surely active",
   and the notes that OUTLIVE a release: a percussion note is kept in MIDIchannel::activenotes for its minimal life
   time (30 ms of rendered / ticked time) even when panic() / note-off released it ("extended life time"); it keeps
   the index of its chip channel.  yd = the young drum notes (highest chip channel one of them may hold, remaining
   life), non = chip channels that may have been handed out since the chips were last re-created.

   The model is implementation-shaped where the statement names tables: the guards are transcribed AS
   WRITTEN (Repaired = FALSE) and every table access carries its index-validity condition:
     m_midiChannels[ChanIdx(ch)]     ChanIdx(ch) < 16      (guard in realTime_* is  channel > size)
     s_dmx_volume_model[i], W9X[i]   i < 128 / i < 32       (CC7 / CC11 values are stored unmasked)
     bank.ins[patch]                 patch < 128            (program number stored unmasked)
     switch(emulator) in OPN2::reset emulator in 0..8       (availability test is  1u << emulator)
     m_chips.resize(numChips)        1 <= numChips <= 100   (opn2_setNumChips stores before validating)
     BankMap::reserve(n)             n <= 2*128*128 (number of bank ids that can exist)
     m_chipChannels[c] of a note     c < 6 * chips          (every path that re-creates the chips drops the active notes:
                                                             PartialReset / ApplySetup -> DropNotes; a young drum note that
                                                             survived a lowering of the chip count would be walked by
                                                             TickIterators / noteUpdate on a destroyed channel)
     bank.ins[idx] (instrument API)  idx < 128               (opn2_getInstrument / opn2_setInstrument: Ret2, DocFail2)
   Hazards(S, ev) lists the accesses whose condition fails for call ev in state S, each with the label
   of its defect class ("crash@realTime_NoteOn channel=16", ...) and whether the model is SURE that
   the access is executed (otherwise it only may be).  With Repaired = TRUE the guards are the suggested
   minimal repairs and Hazards is empty for every call (checked exhaustively by ApiSurfaceMC).

   Ret(S, ev) is the return value the code as written produces (NoPred = not determined by the abstract
   state); DocFail(S, ev) is the documented error class of a call that the header documents to fail. *)
EXTENDS Common, TLC
CONSTANT Repaired

IMAX == 2147483647
IMIN == -2147483647          \* token for INT_MIN (the harness passes INT_MIN)
UMAX == -1                   \* token for UINT_MAX / SIZE_MAX in unsigned parameters
NoPred == -99999

Supported == 0..8            \* emulator ids of the default build (7 = VGM file dumper)
VGM == 7
NMch == 16                   \* Len(m_midiChannels): one MIDI device

(* ---------------------------------------------------------------- fixed inputs (mirrored by lib/gen_api.py) *)
Asset(t, ok, keys, full, tracks, titles, markers) ==
  [t |-> t, ok |-> ok, keys |-> keys, full |-> full, tracks |-> tracks, titles |-> titles, markers |-> markers]
Assets == [
  b1      |-> Asset("bank", TRUE, {0, 32768}, {0, 32768}, 0, 0, 0),
  b2      |-> Asset("bank", TRUE, {0, 256, 1, 32768, 32769}, {0, 32768}, 0, 0, 0),
  bgarb   |-> Asset("bank", FALSE, {}, {}, 0, 0, 0),
  btrunc  |-> Asset("bank", FALSE, {}, {}, 0, 0, 0),
  bempty  |-> Asset("bank", FALSE, {}, {}, 0, 0, 0),
  s1      |-> Asset("song", TRUE, {}, {}, 3, 2, 1),
  s2      |-> Asset("song", TRUE, {}, {}, 1, 0, 0),
  sgarb   |-> Asset("song", FALSE, {}, {}, 0, 0, 0),
  strunc  |-> Asset("song", FALSE, {}, {}, 0, 0, 0),
  sempty  |-> Asset("song", FALSE, {}, {}, 0, 0, 0),
  sbadtrk |-> Asset("song", FALSE, {}, {}, 0, 0, 0),      \* well-formed header and first track, unparsable second track
  sbadvlq |-> Asset("song", FALSE, {}, {}, 0, 0, 0),      \* ... second track starts with an endless delta time
  srsxx   |-> Asset("song", TRUE, {}, {}, 1, 0, 0),       \* EA-MUS/RSXX song: loading it forces 2 chips and LOCKS the setup (setNumChips & co. store but do not apply)
  unk     |-> Asset("none", FALSE, {}, {}, 0, 0, 0),      \* (state after a load rejected in the middle: nothing is predicted)
  missing |-> Asset("path", FALSE, {}, {}, 0, 0, 0),
  dir     |-> Asset("path", FALSE, {}, {}, 0, 0, 0),
  none    |-> Asset("none", FALSE, {}, {}, 0, 0, 0) ]
BankAssets == {"b1", "b2", "bgarb", "btrunc", "bempty"}
SongAssets == {"s1", "s2", "sgarb", "strunc", "sempty", "sbadtrk", "sbadvlq", "srsxx"}
RejectedMidway == {"sbadtrk", "sbadvlq"}

Rep(n, x) == [i \in 1..n |-> x]
RolandSum(b) == (128 - (SumSeq(b) % 128)) % 128
Sx == [
  gmOn    |-> [bytes |-> <<240, 126, 127, 9, 1, 247>>, eff |-> "gm"],
  gmOff   |-> [bytes |-> <<240, 126, 127, 9, 2, 247>>, eff |-> "xg"],
  master  |-> [bytes |-> <<240, 127, 127, 4, 1, 0, 100, 247>>, eff |-> "master"],
  gsReset |-> [bytes |-> <<240, 65, 127, 66, 18, 64, 0, 127, 0, RolandSum(<<64, 0, 127, 0>>), 247>>, eff |-> "gs"],
  gsDrum  |-> [bytes |-> <<240, 65, 127, 66, 18, 64, 17, 21, 1, RolandSum(<<64, 17, 21, 1>>), 247>>, eff |-> "drum0"],
  xgOn    |-> [bytes |-> <<240, 67, 127, 76, 0, 0, 126, 0, 247>>, eff |-> "xg"],
  empty   |-> [bytes |-> <<>>, eff |-> "none"],
  short3  |-> [bytes |-> <<240, 126, 247>>, eff |-> "none"],
  noF7    |-> [bytes |-> <<240, 126, 127, 9, 1, 0>>, eff |-> "none"],
  noF0    |-> [bytes |-> <<0, 126, 127, 9, 1, 247>>, eff |-> "none"],
  bit8    |-> [bytes |-> <<240, 126, 127, 9, 129, 247>>, eff |-> "none"],
  badsum  |-> [bytes |-> <<240, 65, 127, 66, 18, 64, 0, 127, 0, 0, 247>>, eff |-> "none"],
  allF7   |-> [bytes |-> <<247, 247, 247, 247>>, eff |-> "none"],
  long    |-> [bytes |-> <<240, 125>> \o Rep(1020, 1) \o <<247>>, eff |-> "none"] ]
SxNames == DOMAIN Sx
SxFramed(b) == Len(b) >= 4 /\ b[1] = 240 /\ b[Len(b)] = 247 /\ \A i \in 2..(Len(b) - 1) : b[i] < 128

(* ---------------------------------------------------------------- abstract state *)
Mch0 == [vol |-> 100, expr |-> 127, patch |-> 0, msb |-> 0, xgp |-> FALSE, an |-> -1, av |-> 0]
\* young drum notes: hi = highest chip channel one of them may occupy (-1: none), ttl = microseconds of life that may be left
YNone == [hi |-> -1, ttl |-> 0]
DrumTtl == 30000             \* drum_note_min_time = 0.03 s
TtlCap == 2000000000         \* "for ever" (a NaN / negative time span never lets the life time run out)
New(rate) == [alive |-> TRUE, rate |-> rate, craw |-> 2, chips |-> 2, cgood |-> 2, emu |-> 0, banks |-> {}, full |-> {},
              tempo |-> "norm", t1 |-> TRUE, loop |-> FALSE,
              non |-> 0, yd |-> YNone, ys |-> YNone,
              vset |-> 0, logv |-> 0, scale |-> 0, master |-> 127, mode |-> "XG", arp |-> 0, alloc |-> -1,
              mch |-> [c \in 0..15 |-> Mch0], song |-> "none", fuel |-> 0]
Dead == [New(44100) EXCEPT !.alive = FALSE]

ND(ev) == "nd" \in DOMAIN ev /\ ev.nd = 1
NullDev(S, ev) == ~S.alive \/ ND(ev)
Has(ev, f) == f \in DOMAIN ev
SongOf(S) == Assets[S.song]

(* ---------------------------------------------------------------- guards as written / repaired *)
ChanIdx(ch) == IF (IF Repaired THEN ch >= NMch ELSE ch > NMch) THEN ch % 16 ELSE ch
\* (support & (1u << (unsigned)e)) != 0 : the shift count is taken modulo 32 by the hardware (undefined in C)
EmuAvailable(e) == IF Repaired THEN e \in Supported ELSE (e % 32) \in Supported
ChipsValid(n) == n >= 1 /\ n <= 100
ChipsHuge(n) == n < 0 \/ n > 100000                  \* as unsigned: 2^31 .. 2^32-1, or INT_MAX
Mask7(v) == IF Repaired THEN v % 128 ELSE v           \* suggested repair: store 7-bit controller / program values
ScaleOf(v, cur) == CASE v = 1 -> 0 [] v = 2 -> 1 [] v = 3 -> 2 [] v = 4 -> 3 [] v = 5 -> 4 [] OTHER -> cur

DrumPath(S, c) == c = 9 \/ S.mch[c].xgp
\* chip channels that exist (OPN2::reset: m_numChannels = m_numChips * 6)
NChan(S) == 6 * Clamp(S.chips, 0, 101)
\* a young drum note that holds a chip channel which does not exist (any more): the index-validity condition of every
\* m_chipChannels[c] / m_chips[c / 6] access of TickIterators -> noteUpdate.  yd is dropped by every step that re-creates the
\* chips (DropNotes), so this never holds in the model (checked exhaustively by ApiSurfaceMC, both variants)
StaleYoung(S) == S.yd.ttl > 0 /\ S.yd.hi >= NChan(S)
\* ... and the same for ys, the young drum notes that the last re-creation of the chips had to drop: if a crash of the memory
\* classes happens while StaleSurvivor holds, the tree kept them (label of the crash monitor, spec/ApiSurfaceTrace.tla)
StaleSurvivor(S) == S.alive /\ S.ys.ttl > 0 /\ S.ys.hi >= NChan(S)
SurvivorLabel == "uaf@reset keeps a young drum note beyond the chip channels"
SureSnd(S, c) == S.chips >= 1 /\ {0, 32768} \subseteq S.full /\ (DrumPath(S, c) \/ S.mch[c].patch < 128)
ClampVel(v) == Clamp(v, 1, 127)

\* OPN2::touchNote: table index of the volume model in force
VolBad9xExact(vel, vol, expr, master) == (((vel * vol * expr * master) \div 2048383) \div 4) > 31
VolBad(S, c, vel, master) ==
  LET m == S.mch[c] IN
  CASE S.scale = 2 -> ((m.vol * m.expr * master) \div 16129) > 127
    [] S.scale = 4 -> VolBad9xExact(vel, m.vol, m.expr, master)
    [] OTHER -> FALSE
\* with the soft pedal the velocity is scaled by 0.8 first: "sure" needs both
VolBadSure(S, c, vel, master) == VolBad(S, c, vel, master) /\ VolBad(S, c, (vel * 4) \div 5, master)
VolLabel(S, c) ==
  LET m == S.mch[c] IN
  (IF S.scale = 2 THEN "dmx-volume" ELSE "9x-volume") \o " " \o
  (IF m.vol >= 128 /\ m.expr >= 128 THEN "cc7=" \o ToString(m.vol) \o " cc11=" \o ToString(m.expr)
   ELSE IF m.vol >= 128 THEN "cc7=" \o ToString(m.vol) ELSE IF m.expr >= 128 THEN "cc11=" \o ToString(m.expr) ELSE "cc7*cc11")

CtrlTouching == {0, 1, 5, 6, 7, 10, 11, 32, 37, 38, 64, 65, 66, 67, 74, 98, 99, 100, 101, 120, 121, 123}
RtSite == [rt_noteOn |-> "NoteOn", rt_noteOff |-> "NoteOff", rt_noteAfterTouch |-> "NoteAfterTouch",
           rt_channelAfterTouch |-> "ChannelAfterTouch", rt_controllerChange |-> "Controller", rt_patchChange |-> "PatchChange",
           rt_pitchBend |-> "PitchBend", rt_pitchBendML |-> "PitchBend", rt_bankChangeLSB |-> "BankChangeLSB",
           rt_bankChangeMSB |-> "BankChangeMSB", rt_bankChange |-> "BankChange", noteBurst |-> "NoteOn"]
IsNoteOn(ev) == ev.e \in {"rt_noteOn", "noteBurst"}
IsRt(ev) == ev.e \in DOMAIN RtSite
IsRender(ev) == ev.e \in {"play", "playFormat", "generate", "generateFormat"}
IntTok(n) == IF n = IMIN THEN "INT_MIN" ELSE IF n = IMAX THEN "INT_MAX" ELSE ToString(n)

AssetOk(ev, t) == Assets[ev.a].ok /\ Assets[ev.a].t = t
\* calls that run applySetup() (which copies the stored chip count into the synth and re-creates the chips)
DoesApplySetup(S, ev) ==
  \/ ev.e = "setChipType"
  \/ ev.e \in {"openBankData", "openBankFile"} /\ AssetOk(ev, "bank")
  \/ ev.e \in {"openData", "openFile"} /\ S.banks # {}

\* a hazard: kind (what the failed condition leads to), site + class of the defect, and whether the access surely executes
Hz(c, kind, rest, sure) == IF c THEN << [w |-> kind \o "@" \o rest, k |-> kind, sure |-> sure] >> ELSE << >>

\* state after the controller / program store of the call (the index is computed from the stored value)
WithCC(S, c, n, v) ==
  CASE n = 7   -> [S EXCEPT !.mch[c].vol = Mask7(v)]
    [] n = 11  -> [S EXCEPT !.mch[c].expr = Mask7(v)]
    [] n = 121 -> [S EXCEPT !.mch[c].expr = 127]
    [] OTHER   -> S

Hazards(S, ev) ==
  IF NullDev(S, ev) THEN << >>
  ELSE
    LET c == IF IsRt(ev) THEN ChanIdx(ev.ch) ELSE 0
        \* realTime_Controller only touches m_midiChannels[channel] for the controller numbers it implements
        chanBad == IsRt(ev) /\ c >= NMch /\ (ev.e = "rt_controllerChange" => ev.n \in CtrlTouching)
    IN
    Hz(chanBad, "crash", "realTime_" \o (IF IsRt(ev) THEN RtSite[ev.e] ELSE "") \o " channel=" \o (IF IsRt(ev) THEN ToString(ev.ch) ELSE ""), TRUE)
    \o Hz(ev.e = "switchEmulator" /\ EmuAvailable(ev.v) /\ ev.v \notin Supported, "abort", "switchEmulator " \o (IF ev.e = "switchEmulator" THEN IntTok(ev.v) ELSE ""), FALSE)   \* undefined shift: depends on the compiler
    \o Hz(DoesApplySetup(S, ev) /\ ChipsHuge(S.craw), "alloc", "setNumChips " \o IntTok(S.craw), TRUE)
    \o Hz(~Repaired /\ ev.e = "reserveBanks" /\ (ev.n = UMAX \/ ev.n > 1000000), "alloc", "reserveBanks UINT_MAX", TRUE)   \* repair: more than 2*128*128 ids cannot exist -> -1
    \o Hz(StaleYoung(S) /\ (IsRender(ev) \/ ev.e \in {"tickEvents", "panic", "rt_noteOn", "rt_noteOff", "noteBurst", "rt_resetState"}),
          "uaf", "TickIterators young drum note beyond the chip channels", FALSE)
    \o (IF chanBad THEN << >>
        ELSE CASE IsNoteOn(ev) /\ ev.v > 0 ->
                    Hz(~DrumPath(S, c) /\ S.mch[c].patch >= 128 /\ S.banks # {},
                       "overflow", "realTime_NoteOn patch=" \o ToString(S.mch[c].patch), 0 \in S.banks /\ S.mch[c].patch > 128)   \* &ins[128] is one past the end: not instrumented
                    \o Hz(VolBad(S, c, ClampVel(ev.v), S.master) /\ S.chips >= 1 /\ S.banks # {}, "overflow", VolLabel(S, c),
                          SureSnd(S, c) /\ VolBadSure(S, c, ClampVel(ev.v), S.master))
               [] ev.e = "rt_controllerChange" /\ ev.n \in {7, 11, 74, 121} ->
                    LET S1 == WithCC(S, c, ev.n, ev.v)
                        vel == IF S.mch[c].an >= 0 THEN S.mch[c].av ELSE 127 IN
                    Hz(VolBad(S1, c, vel, S.master) /\ S.chips >= 1 /\ S.banks # {}, "overflow", VolLabel(S1, c),
                       S.mch[c].an >= 0 /\ VolBadSure(S1, c, vel, S.master))
               [] ev.e = "rt_systemExclusive" /\ Sx[ev.x].eff = "master" ->
                    LET bad == { k \in 0..15 : VolBad(S, k, IF S.mch[k].an >= 0 THEN S.mch[k].av ELSE 127, 100) } IN
                    Hz(bad # {} /\ S.chips >= 1 /\ S.banks # {}, "overflow", VolLabel(S, CHOOSE k \in bad \cup {0} : bad # {} => k \in bad),
                       \E k \in bad : S.mch[k].an >= 0 /\ VolBadSure(S, k, S.mch[k].av, 100))
               [] OTHER -> << >>)

(* ---------------------------------------------------------------- cost of a call (fuel of a history, time allowance) *)
CoreK == [i \in 0..8 |-> IF i \in {1, 8} THEN 10 ELSE 1]           \* microseconds per frame and chip at 44.1 kHz (ASan build, measured)
RateF(rate) == IF rate < 20000 THEN 6 ELSE 1                        \* resampling from the native 53 kHz
RecreatesChips(ev) == ev.e \in {"setNumChips", "setChipType", "switchEmulator", "setRunAtPcmRate", "reset", "openBankData", "openBankFile", "openData", "openFile"}
\* chips that may be running: the applied count, or the last accepted one (a repaired setNumChips does not store rejected counts)
ChipsUp(S) == Clamp(Max(S.chips, S.cgood), 0, 101)
\* the sequencer's tick handler runs at most 10000 rows per call (anti-freeze counter): measured 2.2 s under ASan
RowsBurst == 2500000
\* ... which happens when the call covers a huge time span or accepts a huge granularity ("process everything up to g/2 ahead")
FastTick(S, ev) == S.song # "none" /\ (S.tempo = "fast" \/ (ev.e = "tickEvents" /\ (ev.s \in {"huge", "inf"} \/ ev.g \in {"huge", "inf"})))
SeqCost(S, ev) ==
  IF ev.e = "tickEvents" /\ FastTick(S, ev) THEN RowsBurst
  ELSE IF ev.e \in {"play", "playFormat"} /\ FastTick(S, ev) THEN ((Max(ev.n, 0) \div 1024) + 1) * RowsBurst
  ELSE 0
ChipCost(S, ev) ==
  IF IsRender(ev) THEN (Max(ev.n, 0) \div 2) * ChipsUp(S) * CoreK[IF S.emu \in 0..8 THEN S.emu ELSE 0] * RateF(S.rate)
  ELSE IF RecreatesChips(ev) THEN 2000 * Clamp(IF ev.e = "setNumChips" /\ ChipsValid(ev.n) THEN ev.n ELSE Max(ChipsUp(S), IF S.craw \in 0..101 THEN S.craw ELSE 0), 1, 101)
  ELSE 0
Cost(S, ev) == IF NullDev(S, ev) THEN 0 ELSE ChipCost(S, ev) + SeqCost(S, ev)         \* microseconds (estimate): fuel of a history
\* seconds of CPU time the call may take: 2 s + 10 x the estimated chip work + 2 x the estimated sequencer work
Tmo(S, ev) == IF NullDev(S, ev) THEN 2 ELSE 2 + ChipCost(S, ev) \div 100000 + SeqCost(S, ev) \div 500000
\* the VGM dumper is not an audio emulator (it writes a file): no rendering while it is selected
Enabled(S, ev, cap) == (S.fuel + Cost(S, ev) <= cap) /\ ~(IsRender(ev) /\ S.alive /\ S.emu = VGM)

(* ---------------------------------------------------------------- return values of the code as written *)
BankKey(ev) == ev.p * 32768 + ev.msb * 256 + ev.lsb
BankIdOk(ev) == ev.p <= 1 /\ ev.msb <= 127 /\ ev.lsb <= 127
FmtOk(t, cs) == \/ t \in {1, 6} /\ cs \in {1, 2, 4}      \* S8 U8
                \/ t \in {0, 7} /\ cs \in {2, 4}         \* S16 U16
                \/ t \in {4, 5, 8, 9} /\ cs = 4          \* S24 S32 U24 U32
                \/ (t = 2 /\ cs = 4) \/ (t = 3 /\ cs = 8)    \* F32 F64
Even(n) == n - (n % 2)

NullRet == [setNumChips |-> -2, getNumChips |-> -2, getNumChipsObtained |-> -2, reserveBanks |-> -1, getBank |-> -1, iterBanks |-> -1,
            getLfoEnabled |-> -1, getLfoFrequency |-> -1, getChipType |-> -1, getAutoArpeggio |-> 0, getVolumeRangeModel |-> -1,
            getChannelAllocMode |-> -1, openBankFile |-> -1, openBankData |-> -1, switchEmulator |-> -1, setRunAtPcmRate |-> -1,
            setDeviceIdentifier |-> -1, openFile |-> -1, openData |-> -1, getSongsCount |-> 0, atEnd |-> 1, trackCount |-> 0,
            metaTrackTitleCount |-> 0, metaMarkerCount |-> 0, play |-> 0, playFormat |-> 0, generate |-> 0, generateFormat |-> 0,
            setTrackOptions |-> -1, setChannelEnabled |-> -1, rt_noteOn |-> 0, noteBurst |-> 0, rt_systemExclusive |-> -1, describeChannels |-> -1]

Ret(S, ev) ==
  IF ev.e \in {"Init", "reinit"} THEN 1
  ELSE IF NullDev(S, ev) THEN (IF ev.e \in DOMAIN NullRet THEN NullRet[ev.e] ELSE NoPred)
  ELSE CASE ev.e = "setNumChips" -> IF ChipsValid(ev.n) THEN 0 ELSE -1
    [] ev.e = "getNumChips" -> S.craw
    [] ev.e = "getNumChipsObtained" -> IF S.song = "srsxx" THEN 2 ELSE S.chips       \* locked setup: 2 chips whatever was asked for
    [] ev.e = "getBank" -> IF ~BankIdOk(ev) THEN -1
                           ELSE IF ev.flags % 2 = 0 THEN (IF BankKey(ev) \in S.banks THEN 0 ELSE -1)
                           ELSE IF ev.flags % 4 = 3 /\ BankKey(ev) \notin S.banks THEN NoPred ELSE 0
    [] ev.e = "iterBanks" -> IF S.banks = {} THEN -1 ELSE 0
    [] ev.e = "getAutoArpeggio" -> S.arp
    [] ev.e = "getVolumeRangeModel" -> IF S.song = "srsxx" THEN NoPred ELSE S.scale + 1
    [] ev.e = "getChannelAllocMode" -> S.alloc
    [] ev.e \in {"openBankData", "openBankFile"} -> IF AssetOk(ev, "bank") THEN 0 ELSE -1
    [] ev.e \in {"openData", "openFile"} -> IF S.banks # {} /\ AssetOk(ev, "song") THEN 0 ELSE -1
    [] ev.e = "switchEmulator" -> IF ev.v \in Supported THEN 0 ELSE IF EmuAvailable(ev.v) THEN NoPred ELSE -1     \* NoPred: undefined shift
    [] ev.e = "setRunAtPcmRate" -> 0
    [] ev.e = "setDeviceIdentifier" -> IF ev.v >= 0 /\ ev.v <= 15 THEN 0 ELSE -1
    [] ev.e = "getSongsCount" -> 0
    [] ev.e = "trackCount" -> IF S.song = "unk" THEN NoPred ELSE SongOf(S).tracks
    [] ev.e = "metaTrackTitleCount" -> IF S.song = "unk" THEN NoPred ELSE SongOf(S).titles
    [] ev.e = "metaMarkerCount" -> IF S.song = "unk" THEN NoPred ELSE SongOf(S).markers
    [] ev.e = "generate" -> IF ev.n < 0 THEN 0 ELSE Even(ev.n)
    [] ev.e = "generateFormat" -> IF ev.n < 0 \/ ~FmtOk(ev.type, ev.cs) THEN 0 ELSE Even(ev.n)
    [] ev.e = "play" -> IF ev.n < 2 THEN 0 ELSE NoPred
    [] ev.e = "playFormat" -> IF ev.n < 2 \/ ~FmtOk(ev.type, ev.cs) THEN 0 ELSE NoPred
    [] ev.e = "setTrackOptions" -> IF S.song = "unk" THEN NoPred
                                   ELSE IF (ev.opt % 4) \in {1, 2} /\ ~(ev.i >= 0 /\ ev.i < SongOf(S).tracks) THEN -1
                                   ELSE IF ev.opt \notin 0..3 THEN -1 ELSE 0
    [] ev.e = "setChannelEnabled" -> IF ev.i >= 0 /\ ev.i <= 15 THEN 0 ELSE -1
    [] ev.e = "rt_noteOn" -> IF ChanIdx(ev.ch) >= NMch \/ S.song = "srsxx" THEN NoPred      \* RSXX mode: a re-struck sounding key is only an after-touch (returns 0)
                             ELSE IF ev.v = 0 THEN 0 ELSE IF S.chips < 1 \/ S.banks = {} THEN 0
                             ELSE IF SureSnd(S, ChanIdx(ev.ch)) THEN 1 ELSE NoPred
    \* noteBurst = cnt x opn2_rt_noteOn at once (keys k, k+1, ... modulo 128): r = how many of them returned 1.  All of them do
    \* while chip channels that were never handed out are left
    [] ev.e = "noteBurst" -> IF ChanIdx(ev.ch) >= NMch \/ S.song = "srsxx" THEN NoPred
                             ELSE IF ev.v = 0 \/ ev.cnt <= 0 THEN 0 ELSE IF S.chips < 1 \/ S.banks = {} THEN 0
                             ELSE IF SureSnd(S, ChanIdx(ev.ch)) /\ S.non + ev.cnt <= NChan(S) THEN ev.cnt ELSE NoPred
    [] ev.e = "rt_systemExclusive" -> IF ~SxFramed(ev.bytes) THEN 0 ELSE IF Sx[ev.x].eff # "none" THEN 1 ELSE 0
    [] ev.e = "describeChannels" -> 0
    [] OTHER -> NoPred

\* second result of getBank-then-<op> (only executed when the lookup succeeded)
Ret2(S, ev) ==
  CASE ev.then = "id" -> 0
    [] ev.then = "remove" -> 0
    [] ev.then = "getIns" -> IF ev.idx >= 0 /\ ev.idx <= 127 THEN 0 ELSE -1
    [] ev.then = "setIns" -> IF ev.idx >= 0 /\ ev.idx <= 127 /\ ev.ver = 0 THEN 0 ELSE -1
    [] OTHER -> NoPred

(* documented failures (include/opnmidi.h): "neg" = returns <0, "zero" = returns 0 *)
DocFail(S, ev) ==
  LET nd == NullDev(S, ev) IN
  CASE ev.e = "setNumChips" /\ (nd \/ ~ChipsValid(ev.n)) -> "neg"                 \* "from 1 to 100"
    [] ev.e = "switchEmulator" /\ (nd \/ ev.v \notin Supported) -> "neg"           \* not a member of Opn2_Emulator
    [] ev.e = "setDeviceIdentifier" /\ (nd \/ ~(ev.v >= 0 /\ ev.v <= 15)) -> "neg" \* "4-bit device identifier"
    [] ev.e = "getBank" /\ (nd \/ ~BankIdOk(ev) \/ (ev.flags % 2 = 0 /\ BankKey(ev) \notin S.banks)) -> "neg"
    [] ev.e \in {"openBankData", "openBankFile"} /\ (nd \/ ~AssetOk(ev, "bank")) -> "neg"
    [] ev.e \in {"openData", "openFile"} /\ (nd \/ ~AssetOk(ev, "song")) -> "neg"
    [] ev.e = "setTrackOptions" /\ (nd \/ (S.song # "unk" /\ ev.opt \in {1, 2} /\ ~(ev.i >= 0 /\ ev.i < SongOf(S).tracks))) -> "neg"
    [] ev.e = "setChannelEnabled" /\ (nd \/ ~(ev.i >= 0 /\ ev.i <= 15)) -> "neg"   \* "from 0 to 15"
    [] ev.e \in {"setRunAtPcmRate", "describeChannels", "getVolumeRangeModel"} /\ nd -> "neg"
    [] ev.e = "rt_systemExclusive" /\ ~nd /\ ~SxFramed(ev.bytes) -> "zero"         \* "must begin with 0xF0 and end with 0xF7"
    [] ev.e \in {"play", "generate", "playFormat", "generateFormat"} /\ nd -> "zero"
    [] OTHER -> "none"
DocFail2(S, ev) ==      \* getBank-then-op: "nth instrument in the bank [0..127]"
  IF ev.e = "getBank" /\ Has(ev, "r2") /\ ev.then \in {"getIns", "setIns"} /\ ~(ev.idx >= 0 /\ ev.idx <= 127) THEN "neg" ELSE "none"
DocHolds(kind, r) == CASE kind = "neg" -> r < 0 [] kind = "zero" -> r = 0 [] OTHER -> TRUE

(* ---------------------------------------------------------------- transition function *)
\* panic() / note-offs / controller resets: every key is released, but a percussion note inside its minimal life time is only
\* marked "on extended life time" and stays in activenotes with its chip channel (yd is left alone; CC120 / CC123 do cut the
\* notes of their channel at once, yd is an upper bound and ignores that)
AllOff(S) == [S EXCEPT !.mch = [c \in 0..15 |-> [S.mch[c] EXCEPT !.an = -1]]]
\* dropActiveNotes() after m_chipChannels was rebuilt: no note of the old chip set survives.  ys remembers what had to go
YMax(a, b) == IF a.ttl <= 0 THEN b ELSE IF b.ttl <= 0 THEN a ELSE [hi |-> Max(a.hi, b.hi), ttl |-> Max(a.ttl, b.ttl)]
DropNotes(S) == [S EXCEPT !.ys = YMax(S.yd, @), !.yd = YNone, !.non = 0]
ApplySetup(S) ==
  LET n == IF S.craw \in 0..100000 THEN S.craw ELSE S.chips          \* (a huge count never gets here: the call dies)
      sc == IF S.vset = 0 THEN 0 ELSE IF S.logv # 0 THEN 1 ELSE ScaleOf(S.vset, S.scale)
  IN DropNotes(AllOff([S EXCEPT !.chips = IF S.emu = VGM /\ n > 2 THEN 2 ELSE n, !.scale = sc]))
\* partialReset(): realTime_panic (which leaves the young drum notes alive), chips re-created, dropActiveNotes
PartialReset(S) == DropNotes(AllOff([S EXCEPT !.chips = IF S.emu = VGM /\ @ > 2 THEN 2 ELSE @]))
\* ageing of the young drum notes by TickIterators(s): us microseconds (a LOWER bound of the time that passed, so that ttl stays an
\* upper bound; negative: opn2_tickEvents(-1) makes them younger; TtlCap: NaN, never runs out)
AgeY(y, us) == IF y.ttl <= 0 THEN YNone ELSE IF y.ttl >= TtlCap THEN y
               ELSE IF us <= -TtlCap THEN [y EXCEPT !.ttl = TtlCap]
               ELSE LET t == y.ttl - us IN IF t <= 0 THEN YNone ELSE [y EXCEPT !.ttl = Min(t, TtlCap)]
Age(S, us) == [S EXCEPT !.yd = AgeY(@, us), !.ys = AgeY(@, us)]
ResetMIDI(S) == [S EXCEPT !.master = 127, !.mode = "XG", !.mch = [c \in 0..15 |-> Mch0]]
ResetState(S) == [S EXCEPT !.master = 127,
                           !.mch = [c \in 0..15 |-> [S.mch[c] EXCEPT !.vol = 100, !.expr = 127, !.an = -1,
                                                                      !.xgp = IF S.mode = "GS" THEN FALSE ELSE @]]]
R(ev) == IF Has(ev, "r") THEN ev.r ELSE NoPred
R2(ev) == IF Has(ev, "r2") THEN ev.r2 ELSE NoPred
\* time (microseconds, lower bound) that TickIterators sees in a rendering call: samples / 2 frames at the output rate ...
RenderUs(S, ev) ==
  LET n == IF ev.e \in {"playFormat", "generateFormat"} /\ ~FmtOk(ev.type, ev.cs) THEN 0
           ELSE IF ev.e \in {"play", "playFormat"} /\ Has(ev, "r") THEN Max(ev.r, 0) ELSE Even(Max(ev.n, 0))
  IN ((Min(n, 200000) \div 2) * 1000) \div ((S.rate \div 1000) + 1)
\* ... and in opn2_tickEvents(s, g): s times the tempo multiplier
TickUs(S, ev) ==
  CASE ev.s = "neg1" -> IF S.t1 THEN -1000000 ELSE -TtlCap
    [] ev.s = "nan" -> -TtlCap
    [] ~S.t1 -> 0
    [] ev.s = "small" -> 10000
    [] ev.s \in {"one", "huge", "inf"} -> 1000000
    [] OTHER -> 0

\* n note-ons that may have been placed on chip channels (each note takes one): the channels handed out so far are an upper
\* bound of the highest index in use (a released channel scores lower than one never used, so new notes climb); a drum note
\* (MIDI channel 9 or XG percussion mode) starts its minimal life time
Placed(S, c, n) ==
  IF n <= 0 \/ S.chips < 1 \/ S.banks = {} THEN S
  ELSE LET m == Min(S.non + n, NChan(S)) IN
       IF DrumPath(S, c) THEN [S EXCEPT !.non = m, !.yd = [hi |-> Max(S.yd.hi, m - 1), ttl |-> Max(S.yd.ttl, DrumTtl)]]
       ELSE [S EXCEPT !.non = m]
BurstKeys(ev) == { (ev.k + i) % 128 : i \in 0..(ev.cnt - 1) }
StepRt(S, ev) ==
  LET c == ChanIdx(ev.ch) IN
  IF c >= NMch THEN S
  ELSE CASE ev.e = "rt_noteOn" ->
              LET k == Min(ev.k, 127)
                  S0 == IF ev.v > 0 /\ R(ev) # 0 THEN Placed(S, c, 1) ELSE S IN
              IF ev.v = 0 THEN (IF S.mch[c].an = k THEN [S EXCEPT !.mch[c].an = -1] ELSE S)
              ELSE IF R(ev) = 1 /\ SureSnd(S, c) THEN [S0 EXCEPT !.mch[c].an = k, !.mch[c].av = ClampVel(ev.v)]
              ELSE IF S.mch[c].an = k THEN [S0 EXCEPT !.mch[c].an = -1] ELSE S0
         [] ev.e = "noteBurst" ->
              LET S0 == IF ev.v > 0 /\ R(ev) # 0 THEN Placed(S, c, IF R(ev) = NoPred THEN ev.cnt ELSE Min(R(ev), ev.cnt)) ELSE S IN
              IF ev.cnt <= 0 THEN S
              ELSE IF ev.v > 0 /\ R(ev) = ev.cnt /\ SureSnd(S, c) THEN [S0 EXCEPT !.mch[c].an = (ev.k + ev.cnt - 1) % 128, !.mch[c].av = ClampVel(ev.v)]
              ELSE IF S.mch[c].an \in BurstKeys(ev) THEN [S0 EXCEPT !.mch[c].an = -1] ELSE S0
         [] ev.e = "rt_noteOff" -> IF S.mch[c].an = ev.k THEN [S EXCEPT !.mch[c].an = -1] ELSE S
         [] ev.e = "rt_patchChange" -> [S EXCEPT !.mch[c].patch = Mask7(ev.p)]
         [] ev.e = "rt_bankChangeMSB" -> [S EXCEPT !.mch[c].msb = ev.v]
         [] ev.e = "rt_bankChange" -> [S EXCEPT !.mch[c].msb = (ev.b \div 256) % 256]
         [] ev.e = "rt_controllerChange" ->
              (CASE ev.n = 0 -> [S EXCEPT !.mch[c].msb = ev.v, !.mch[c].xgp = IF S.mode = "GS" THEN @ ELSE ev.v \in {126, 127}]
                 [] ev.n = 32 -> [S EXCEPT !.mch[c].xgp = IF S.mode = "GS" THEN @ ELSE S.mch[c].msb \in {126, 127}]
                 [] ev.n \in {7, 11, 121} -> WithCC(S, c, ev.n, ev.v)
                 [] ev.n \in {120, 123} -> [S EXCEPT !.mch[c].an = -1]
                 [] OTHER -> S)
         [] OTHER -> S

Step(S, ev) ==
  IF ev.e \in {"Init", "reinit"} THEN New(ev.rate)
  ELSE IF NullDev(S, ev) THEN S
  ELSE IF IsRt(ev) THEN StepRt(S, ev)
  ELSE CASE ev.e = "close" -> Dead
    [] ev.e = "setNumChips" ->
         IF ChipsValid(ev.n) THEN PartialReset([S EXCEPT !.craw = ev.n, !.chips = ev.n, !.cgood = ev.n])
         ELSE IF Repaired THEN S ELSE [S EXCEPT !.craw = ev.n]                      \* stored before validating
    [] ev.e = "setChipType" -> ApplySetup(S)
    [] ev.e = "switchEmulator" -> IF (IF Has(ev, "r") THEN ev.r = 0 ELSE EmuAvailable(ev.v)) THEN PartialReset([S EXCEPT !.emu = ev.v]) ELSE S
    [] ev.e = "setRunAtPcmRate" -> PartialReset(S)
    [] ev.e = "setLogarithmicVolumes" -> [S EXCEPT !.logv = ev.v, !.scale = IF ev.v # 0 THEN 1 ELSE ScaleOf(S.vset, @)]
    [] ev.e = "setVolumeRangeModel" -> [S EXCEPT !.vset = ev.v, !.scale = IF ev.v = 0 THEN 0 ELSE ScaleOf(ev.v, @)]
    [] ev.e = "setChannelAllocMode" -> [S EXCEPT !.alloc = IF ev.v < -1 \/ ev.v >= 3 THEN -1 ELSE ev.v]
    [] ev.e = "setAutoArpeggio" -> [S EXCEPT !.arp = IF ev.v # 0 THEN 1 ELSE 0]
    [] ev.e = "setLoopEnabled" -> [S EXCEPT !.loop = ev.v # 0]
    \* tempo <= 0, NaN and multipliers beyond 1e6 are ignored (8786f57; before that repair huge / inf made every tick "fast"
    \* and opn2_play never returned on a looping song)
    \* (t1: the multiplier is surely 1.0, so that a tick of s seconds ages the notes by s)
    [] ev.e = "setTempo" -> IF ev.t \in {"huge", "inf", "nan"} THEN (IF Repaired THEN S ELSE [S EXCEPT !.tempo = "fast", !.t1 = FALSE])
                            ELSE IF ev.t \in {"neg1", "zero", "ninf"} THEN S ELSE [S EXCEPT !.tempo = "norm", !.t1 = (ev.t = "one")]
    [] ev.e \in {"openBankData", "openBankFile"} ->
         IF R(ev) = 0 /\ Assets[ev.a].t = "bank"
         THEN ApplySetup([S EXCEPT !.banks = Assets[ev.a].keys, !.full = Assets[ev.a].full, !.vset = 0]) ELSE S
    [] ev.e \in {"openData", "openFile"} ->
         IF S.banks = {} THEN S
         ELSE LET S1 == ApplySetup(ResetMIDI(S)) IN
              IF R(ev) = 0 /\ Assets[ev.a].t = "song" THEN [S1 EXCEPT !.song = ev.a]
              ELSE IF ev.a \in RejectedMidway THEN [S1 EXCEPT !.song = "unk"] ELSE S1
    [] ev.e = "reset" -> ResetMIDI(PartialReset(S))
    [] ev.e \in {"rt_resetState"} -> ResetState(S)
    [] ev.e \in {"panic", "positionRewind"} -> AllOff(S)
    [] ev.e = "positionSeek" -> IF ev.t \in {"neg1", "ninf"} THEN S ELSE AllOff(S)
    [] ev.e \in {"generate", "generateFormat"} -> Age(S, RenderUs(S, ev))
    [] ev.e \in {"play", "playFormat"} -> Age(IF S.song # "none" THEN AllOff(S) ELSE S, RenderUs(S, ev))
    \* a time span the sequencer could not work off (huge / inf on a loaded song: the anti-freeze limit of 10000 rows stops the
    \* call) is dropped since 7bb6d7a; before that repair the position's wait stayed at -inf, every later tick ran into the limit
    \* again ("fast" for good) and opn2_play on a looping song never returned
    [] ev.e = "tickEvents" ->
         LET S1 == Age(IF S.song # "none" THEN AllOff(S) ELSE S, TickUs(S, ev)) IN
         IF ~Repaired /\ S.song # "none" /\ ev.s \in {"huge", "inf"} THEN [S1 EXCEPT !.tempo = "fast"] ELSE S1
    [] ev.e = "setChannelEnabled" -> IF ev.i >= 0 /\ ev.i <= 15 /\ ev.v = 0 THEN [S EXCEPT !.mch[ev.i].an = -1] ELSE S
    [] ev.e = "selectSongNum" -> S
    [] ev.e = "getBank" ->
         IF R(ev) # 0 \/ ~BankIdOk(ev) THEN S
         ELSE LET key == BankKey(ev)
                  S1 == [S EXCEPT !.banks = @ \cup {key}] IN
              CASE ev.then = "remove" /\ R2(ev) = 0 -> [S1 EXCEPT !.banks = @ \ {key}, !.full = @ \ {key}]
                [] ev.then = "setIns" /\ R2(ev) = 0 /\ ev.fl # 0 -> [S1 EXCEPT !.full = @ \ {key}]
                [] OTHER -> S1
    [] ev.e = "rt_systemExclusive" ->
         IF R(ev) # 1 THEN S
         ELSE (CASE Sx[ev.x].eff = "gm" -> ResetState([S EXCEPT !.mode = "GM"])
                 [] Sx[ev.x].eff = "xg" -> ResetState([S EXCEPT !.mode = "XG"])
                 [] Sx[ev.x].eff = "gs" -> ResetState([S EXCEPT !.mode = "GS"])
                 [] Sx[ev.x].eff = "master" -> [S EXCEPT !.master = 100]
                 [] Sx[ev.x].eff = "drum0" -> [S EXCEPT !.mch[0].xgp = TRUE]
                 [] OTHER -> S)
    [] OTHER -> S
\* fuel is spent by the caller of Step:  [Step(S, ev) EXCEPT !.fuel = S.fuel + Cost(S, ev)]

(* ---------------------------------------------------------------- the alphabet: functions x boundary classes *)
ChanC  == {0, 9, 15, 16, 17, 255}
ValC   == {0, 1, 64, 127, 128, 255}
CtrlC  == {0, 1, 5, 6, 7, 10, 11, 32, 37, 38, 64, 65, 66, 67, 74, 91, 92, 93, 94, 95, 98, 99, 100, 101, 113, 120, 121, 123} \cup {2, 119, 255}
EmuC   == {-1, 0, 1, 2, 3, 4, 5, 6, 7, 8, 9, 31, 32, 33, IMAX}
ChipC  == {IMIN, -1, 0, 1, 2, 100, 101, IMAX}
CountC == {-4, -1, 0, 1, 2, 1023, 1024, 1025, 70000}
BoolC  == {IMIN, -1, 0, 1, 2, IMAX}
VolMC  == {-1, 0, 1, 2, 3, 4, 5, 6, 255, IMAX}
AllocC == {IMIN, -2, -1, 0, 1, 2, 3, 255}
DblC   == {"neg1", "zero", "tiny", "small", "one", "huge", "nan", "inf"}
IdxC(count) == {0, count - 1, count, UMAX} \ {-2}
\* instrument index of a bank (unsigned): the last valid one, the first invalid ones, byte / word / sign boundaries
InsIdxC == {0, 1, 127, 128, 129, 255, 256, 1000, 65536, IMAX, IMIN, UMAX}
BurstC == {1, 6, 7, 12, 13, 16, 49, 128}        \* simultaneous note-ons: around 6 channels x 1 / 2 chips, more than 8 chips have
RateC  == {8000, 44100, 53267, 192000}
BankIds == { <<0, 0, 0>>, <<1, 0, 0>>, <<0, 1, 0>>, <<0, 127, 127>>, <<1, 0, 1>>, <<0, 128, 0>>, <<0, 0, 255>>, <<2, 0, 0>>, <<255, 255, 255>>, <<0, 5, 7>> }

\* parameter classes of every function, and the "ordinary" argument values used while another parameter is swept
Par(S, f) ==
  CASE f \in {"Init", "reinit"} -> [rate |-> RateC]
    [] f = "setNumChips" -> [n |-> ChipC]
    [] f = "reserveBanks" -> [n |-> {0, 1, 8, UMAX}]
    [] f = "getBank" -> [id |-> BankIds, flags |-> {0, 1, 3, 2, -1}, then |-> {"none", "id", "remove", "getIns", "setIns", "next"},
                         idx |-> InsIdxC, ver |-> {0, 1, -1}, fl |-> {0, 2, 255}]
    [] f = "iterBanks" -> [max |-> {64}]
    [] f \in {"setLfoEnabled", "setScaleModulators", "setFullRangeBrightness", "setAutoArpeggio", "setLoopEnabled", "setLoopHooksOnly",
              "setSoftPanEnabled", "setLogarithmicVolumes", "setRunAtPcmRate"} -> [v |-> BoolC]
    [] f = "setLfoFrequency" -> [v |-> {-1, 0, 7, 8, 255, IMAX, IMIN}]
    [] f = "setChipType" -> [v |-> {-1, 0, 1, 2, 255, IMAX, IMIN}]
    [] f = "setLoopCount" -> [v |-> {IMIN, -1, 0, 1, 2, IMAX}]
    [] f = "setVolumeRangeModel" -> [v |-> VolMC]
    [] f = "setChannelAllocMode" -> [v |-> AllocC]
    [] f \in {"openBankData"} -> [a |-> BankAssets \cup {"s1"}]
    [] f \in {"openBankFile"} -> [a |-> BankAssets \cup {"missing", "dir", "s1"}]
    [] f \in {"openData"} -> [a |-> SongAssets \cup {"b1"}]
    [] f \in {"openFile"} -> [a |-> SongAssets \cup {"missing", "dir", "b1"}]
    [] f = "switchEmulator" -> [v |-> EmuC]
    [] f = "setDeviceIdentifier" -> [v |-> {0, 15, 16, 255, UMAX}]
    [] f = "selectSongNum" -> [v |-> {IMIN, -1, 0, 1, IMAX}]
    [] f \in {"positionSeek", "setTempo"} -> [t |-> DblC]
    [] f = "metaTrackTitle" -> [i |-> IdxC(SongOf(S).titles)]
    [] f = "metaMarker" -> [i |-> IdxC(SongOf(S).markers)]
    [] f \in {"play", "generate"} -> [n |-> CountC]
    [] f \in {"playFormat", "generateFormat"} -> [n |-> CountC, type |-> {-1, 0, 1, 2, 3, 4, 5, 6, 7, 8, 9, 10, 255}, cs |-> {0, 1, 2, 3, 4, 8, 16}, lay |-> {"il", "pl", "wide"}]
    [] f = "tickEvents" -> [s |-> DblC, g |-> DblC]
    [] f = "setTrackOptions" -> [i |-> IdxC(SongOf(S).tracks), opt |-> {0, 1, 2, 3, 4, 7, UMAX}]
    [] f = "setChannelEnabled" -> [i |-> {0, 9, 15, 16, UMAX}, v |-> {0, 1, -1}]
    [] f = "rt_noteOn" -> [ch |-> ChanC, k |-> ValC, v |-> ValC]
    [] f = "noteBurst" -> [ch |-> ChanC, k |-> {0, 35, 100, 127}, cnt |-> BurstC, v |-> {0, 1, 127, 255}]
    [] f = "rt_noteOff" -> [ch |-> ChanC, k |-> ValC]
    [] f = "rt_noteAfterTouch" -> [ch |-> ChanC, k |-> ValC, v |-> ValC]
    [] f = "rt_channelAfterTouch" -> [ch |-> ChanC, v |-> ValC]
    [] f = "rt_controllerChange" -> [ch |-> ChanC, n |-> CtrlC, v |-> ValC]
    [] f = "rt_patchChange" -> [ch |-> ChanC, p |-> ValC]
    [] f = "rt_pitchBend" -> [ch |-> ChanC, b |-> {0, 8192, 16383, 16384, 65535}]
    [] f = "rt_pitchBendML" -> [ch |-> ChanC, m |-> ValC, l |-> ValC]
    [] f \in {"rt_bankChangeLSB", "rt_bankChangeMSB"} -> [ch |-> ChanC, v |-> ValC]
    [] f = "rt_bankChange" -> [ch |-> ChanC, b |-> {-32768, -1, 0, 127, 128, 32767}]
    [] f = "rt_systemExclusive" -> [x |-> SxNames]
    [] f \in {"setRawEventHook", "setNoteHook", "setDebugMessageHook", "setLoopStartHook", "setLoopEndHook"} -> [on |-> {0, 1}]
    [] f = "describeChannels" -> [size |-> {0, 1, 2, 7, 13, 601, 70000}]
    [] OTHER -> [nd |-> {0}]            \* no parameters besides the device

Nv(S, f) ==
  CASE f \in {"Init", "reinit"} -> [rate |-> 44100]
    [] f = "setNumChips" -> [n |-> 2]
    [] f = "reserveBanks" -> [n |-> 8]
    [] f = "getBank" -> [id |-> <<0, 0, 0>>, flags |-> 1, then |-> "none", idx |-> 0, ver |-> 0, fl |-> 0]
    [] f = "iterBanks" -> [max |-> 64]
    [] f \in {"openBankData", "openBankFile"} -> [a |-> "b1"]
    [] f \in {"openData", "openFile"} -> [a |-> "s1"]
    [] f \in {"positionSeek"} -> [t |-> "small"]
    [] f \in {"setTempo"} -> [t |-> "one"]
    [] f \in {"metaTrackTitle", "metaMarker"} -> [i |-> 0]
    [] f \in {"play", "generate"} -> [n |-> 1024]
    [] f \in {"playFormat", "generateFormat"} -> [n |-> 1024, type |-> 0, cs |-> 2, lay |-> "il"]
    [] f = "tickEvents" -> [s |-> "small", g |-> "small"]
    [] f = "setTrackOptions" -> [i |-> 0, opt |-> 1]
    [] f = "setChannelEnabled" -> [i |-> 0, v |-> 1]
    [] f = "rt_noteOn" -> [ch |-> 0, k |-> 64, v |-> 127]
    [] f = "noteBurst" -> [ch |-> 9, k |-> 35, cnt |-> 13, v |-> 127]
    [] f = "rt_noteOff" -> [ch |-> 0, k |-> 64]
    [] f = "rt_noteAfterTouch" -> [ch |-> 0, k |-> 64, v |-> 64]
    [] f = "rt_channelAfterTouch" -> [ch |-> 0, v |-> 64]
    [] f = "rt_controllerChange" -> [ch |-> 0, n |-> 7, v |-> 64]
    [] f = "rt_patchChange" -> [ch |-> 0, p |-> 1]
    [] f = "rt_pitchBend" -> [ch |-> 0, b |-> 8192]
    [] f = "rt_pitchBendML" -> [ch |-> 0, m |-> 64, l |-> 0]
    [] f \in {"rt_bankChangeLSB", "rt_bankChangeMSB"} -> [ch |-> 0, v |-> 0]
    [] f = "rt_bankChange" -> [ch |-> 0, b |-> 0]
    [] f = "rt_systemExclusive" -> [x |-> "gmOn"]
    [] f \in {"setRawEventHook", "setNoteHook", "setDebugMessageHook", "setLoopStartHook", "setLoopEndHook"} -> [on |-> 1]
    [] f = "describeChannels" -> [size |-> 13]
    [] f \in {"switchEmulator"} -> [v |-> 0]
    [] f \in {"setVolumeRangeModel", "setChannelAllocMode", "setLfoFrequency", "setChipType", "setLoopCount", "selectSongNum", "setDeviceIdentifier"} -> [v |-> 0]
    [] f \in {"setLfoEnabled", "setScaleModulators", "setFullRangeBrightness", "setAutoArpeggio", "setLoopEnabled", "setLoopHooksOnly",
              "setSoftPanEnabled", "setLogarithmicVolumes", "setRunAtPcmRate"} -> [v |-> 1]
    [] OTHER -> [nd |-> 0]

\* the 90 exported functions (getBankId/removeBank/getInstrument/setInstrument/getNextBank run as getBank-then-<op>,
\* getFirstBank+getNextBank+getBankId as iterBanks; opn2_init = Init/reinit) and one compound call: noteBurst = cnt note-ons
\* of opn2_rt_noteOn without anything in between (simultaneous notes: what fills the chip channels of several chips)
Fns == << "reinit", "close", "setNumChips", "getNumChips", "getNumChipsObtained", "reserveBanks", "getBank", "iterBanks",
          "setLfoEnabled", "getLfoEnabled", "setLfoFrequency", "getLfoFrequency", "setChipType", "getChipType", "setScaleModulators",
          "setFullRangeBrightness", "setAutoArpeggio", "getAutoArpeggio", "setLoopEnabled", "setLoopCount", "setLoopHooksOnly",
          "setSoftPanEnabled", "setLogarithmicVolumes", "setVolumeRangeModel", "getVolumeRangeModel", "setChannelAllocMode",
          "getChannelAllocMode", "openBankFile", "openBankData", "emulatorName", "chipEmulatorName", "switchEmulator", "setRunAtPcmRate",
          "setDeviceIdentifier", "linkedLibraryVersion", "linkedVersion", "errorString", "errorInfo", "openFile", "openData",
          "selectSongNum", "getSongsCount", "reset", "totalTimeLength", "loopStartTime", "loopEndTime", "positionTell", "positionSeek",
          "positionRewind", "setTempo", "atEnd", "trackCount", "metaMusicTitle", "metaMusicCopyright", "metaTrackTitleCount",
          "metaTrackTitle", "metaMarkerCount", "metaMarker", "play", "playFormat", "generate", "generateFormat", "tickEvents",
          "setTrackOptions", "setChannelEnabled", "panic", "rt_resetState", "rt_noteOn", "noteBurst", "rt_noteOff", "rt_noteAfterTouch",
          "rt_channelAfterTouch", "rt_controllerChange", "rt_patchChange", "rt_pitchBend", "rt_pitchBendML", "rt_bankChangeLSB",
          "rt_bankChangeMSB", "rt_bankChange", "rt_systemExclusive", "setRawEventHook", "setNoteHook", "setDebugMessageHook",
          "setLoopStartHook", "setLoopEndHook", "describeChannels" >>

\* event record of function f with parameter record p
Mk(f, p) ==
  LET q == IF "nd" \in DOMAIN p /\ p.nd = 0 THEN [k \in DOMAIN p \ {"nd"} |-> p[k]] ELSE p
      b == IF f = "getBank" THEN [k \in (DOMAIN q \ {"id"}) \cup {"p", "msb", "lsb"} |->
                                     IF k = "p" THEN q.id[1] ELSE IF k = "msb" THEN q.id[2] ELSE IF k = "lsb" THEN q.id[3] ELSE q[k]]
           ELSE IF f = "rt_systemExclusive" THEN q @@ [bytes |-> Sx[q.x].bytes]
           ELSE q
  IN [e |-> f] @@ b

\* parameters that only reach the library under a selector value of another parameter are swept under each such value:
\* getBank-then-getIns / -setIns use idx (and setIns ver, fl); with then = "none" they are not even read
SweepDep(f, P, nv) ==
  IF f = "getBank"
  THEN { Mk(f, [nv EXCEPT !.then = t, !.idx = x]) : t \in {"getIns", "setIns"}, x \in P.idx }
       \cup { Mk(f, [nv EXCEPT !.then = "setIns", !.idx = x, !.id = <<1, 0, 0>>]) : x \in P.idx }
       \cup { Mk(f, [nv EXCEPT !.then = "setIns", !.ver = x]) : x \in P.ver }
       \cup { Mk(f, [nv EXCEPT !.then = "setIns", !.fl = x]) : x \in P.fl }
       \cup { Mk(f, [nv EXCEPT !.then = t, !.flags = x]) : t \in {"remove", "getIns", "setIns"}, x \in P.flags }
  ELSE {}
\* one parameter at a time over its classes (all others ordinary); all pairs for the two-parameter functions with at most 64
\* combinations (tickEvents, noteOff, patchChange, ...); plus the NULL-device variant
Sweep(S, f) ==
  LET P == Par(S, f)  nv == Nv(S, f)
      k1 == CHOOSE k \in DOMAIN P : TRUE
      k2 == CHOOSE k \in DOMAIN P : Cardinality(DOMAIN P) = 2 => k # k1
      pairs == IF Cardinality(DOMAIN P) = 2 /\ Cardinality(P[k1]) * Cardinality(P[k2]) <= 64
               THEN { Mk(f, [k \in DOMAIN P |-> IF k = k1 THEN a ELSE b]) : a \in P[k1], b \in P[k2] } ELSE {}
  IN
  { Mk(f, [nv EXCEPT ![k] = x]) : <<k, x>> \in UNION { { <<kk, xx>> : xx \in P[kk] } : kk \in DOMAIN P } }
  \cup pairs
  \cup SweepDep(f, P, nv)
  \cup (IF f \in {"reinit"} THEN {} ELSE { Mk(f, nv) @@ [nd |-> 1] })
\* a call with every parameter drawn from its classes by the seed sd (0 <= sd < 10^6); pure, so that one random draw
\* made by the caller fixes the whole call (TLC re-evaluates RandomElement at every reference)
Mix(sd, j) == (sd * (2 * j + 7) + 7919 * j) % 1000003
PickFrom(seq, sd) == seq[1 + (sd % Len(seq))]
RandCall(S, f, sd) ==
  LET P == Par(S, f)
      ks == SetToSeq(DOMAIN P)
      pos(k) == CHOOSE i \in 1..Len(ks) : ks[i] = k
  IN Mk(f, [k \in DOMAIN P |-> PickFrom(SetToSeq(P[k]), Mix(sd, pos(k)))])
=============================================================================
