------------------------------ MODULE Isolation ------------------------------
(* C14: instances are deterministic and isolated, also across threads.

   N instances of the library live in one process.  Each has its own state; besides that the code
   has PROCESS-GLOBAL cells, modelled here exactly as the code uses them (read/write sets per call):

     nuked.chip_type   src/chips/nuked/ym3438.c  `static Bit32u chip_type`: written by OPN2_SetChipType,
                       called from NukedOPN2::NukedOPN2 (every chip construction), read by OPN2_ChOutput
                       (every generated sample: YM2612 DAC ladder or not) and OPN2_Read.
     np2.lfotable      src/chips/np2/fmgen_opna.cpp `uint32 OPNBase::lfotable[8]` (static member): rewritten by
                       every OPNBase::SetPrescaler (SetRate: clock/rate ratio of THAT chip), read when register
                       0x22 is written (LFO on: lfodcount = lfotable[..]) and by OPNABase::SetRate.
     mame.tables       src/chips/mame/mame_ym2612fm.c tl_tab/sin_tab/lfo_pm_table: rewritten (constant content)
                       by init_tables() in every ym2612_init, read by generation.
     mamefm.tables     src/chips/mamefm/fm.cpp tl_tab/sin_tab/lfo_pm_table/jedi_table: same, every ym2608 init.
     gens.tables       src/chips/gens/Ym2612.cpp static tables behind `static bool isInit` (unsynchronised
                       check-then-write in the Ym2612Private constructor), read by generation.
     np2.tables        fmgen static tables behind `tablehasmade` / `tablemade` flags (same pattern).
     errstr            src/opnmidi_private.cpp `std::string OPN2MIDI_ErrorString`: written only by calls that have
                       no instance (NULL device / allocation failure), so no instance action touches it.

   Every chip (re)construction happens in OPN2::reset(): opn2_init (default core = MAME YM2612), and then
   opn2_switchEmulator, opn2_setNumChips, opn2_setRunAtPcmRate, opn2_reset, opn2_openData (partialReset /
   LoadMIDI_post).  After the chips are built OPN2::reset writes register 0x22 (LFO state) to each chip.

   Besides the chips an instance owns its SETTINGS and its MIDI channel state; nothing of it is process-global and nothing of
   it may be inherited from the heap (a new instance starts from the documented defaults whatever lived there before):
     cfg      the switches of the API that have no counterpart on a chip: soft panning (OPN2::m_softPanning: off after
              opn2_init, written only by this instance's opn2_setSoftPanEnabled), full-range brightness, scale modulators,
              volume model, LFO frequency, auto-arpeggio, channel allocation mode.  They survive every rebuild of the chips
              (OPN2::reset does not touch them) and end with opn2_close.
     pan      controller 10 of the 16 real-time MIDI channels (64 after opn2_init / opn2_reset / opn2_openData).
   OPN2::setPan (every note start, every controller-10 change of a sounding note) turns them into the panning decision
   PanWrite: soft panning off -> writePan(64) and the hard L/R output bits by thirds of the controller range, soft panning
   on -> writePan(controller value) and both output bits.  It is part of what a call computes with (eff.pan).

   P1 (non-interference): what an instance's generate call computes with ("effective" values of the
       global cells it reads, plus what it latched from them earlier) equals what the same call computes
       in the solo run of that instance's own history.
   P2 (race freedom): no two instances have conflicting accesses (one a write) to a cell; instances are not
       synchronised with each other, so a conflicting pair is a data race once they run on two threads.

   The switches describe repairs (FALSE = the code as it is):
     FixChipType  chip_type becomes a field of ym3438_t        FixLfoTable  lfotable becomes a member of OPNBase
     FixTables    the constant tables are built once under std::call_once / at static-initialisation time *)
EXTENDS Common, TLC

CONSTANTS FixChipType, FixLfoTable, FixTables

\* include/opnmidi.h enum Opn2_Emulator (7 = VGM file dumper, not an audio core)
EMU_MAME == 0        EMU_NUKED3438 == 1    EMU_GENS == 2       EMU_YMFM2 == 3    EMU_NP2 == 4
EMU_MAME2608 == 5    EMU_YMFMA == 6        EMU_NUKED2612 == 8
EmuIds == {0, 1, 2, 3, 4, 5, 6, 8}
EmuName(e) == CASE e = 0 -> "mame" [] e = 1 -> "nuked3438" [] e = 2 -> "gens" [] e = 3 -> "ymfm-opn2" [] e = 4 -> "np2"
                [] e = 5 -> "mame2608" [] e = 6 -> "ymfm-opna" [] e = 8 -> "nuked2612" [] OTHER -> "other"
\* cores that honour opn2_setRunAtPcmRate (canRunAtPcmRate() in src/chips/*.h)
CanPcm(e) == e \in {0, 2, 4, 5}

Cells == {"nuked.chip_type", "np2.lfotable", "mame.tables", "mamefm.tables", "gens.tables", "np2.tables", "errstr"}

G0 == [ct |-> "ym3438",      \* static initialiser: ym3438_mode_readmode
       lt |-> -1,            \* lfotable: -1 = zero-initialised, 0 = ratio of the native rate, r = ratio of PCM rate r
       tab |-> {}]           \* table groups already built
\* ---- settings and controllers: own history only
Settings == {"softpan", "bright", "smod", "vmodel", "lfofreq", "arp", "alloc"}
Cfg0 == [softpan |-> 0, bright |-> 0, smod |-> 0, vmodel |-> 0, lfofreq |-> -1, arp |-> 0, alloc |-> -1]     \* OPNMIDIplay::OPNMIDIplay, OPN2::OPN2
Pan0 == [c \in 0..15 |-> 64]                                                                                \* MIDIchannel::resetAllControllers
PanBits(v) == (IF v < 64 + 16 THEN 2 ELSE 0) + (IF v >= 64 - 16 THEN 1 ELSE 0)                              \* OPN_PANNING_LEFT 0x80, _RIGHT 0x40 (>> 6)
PanWrite(soft, v) == IF soft # 0 THEN [pw |-> v, lr |-> 3] ELSE [pw |-> 64, lr |-> PanBits(v)]

Inst0 == [alive |-> FALSE, emu |-> 0, rate |-> 0, pcm |-> FALSE, lfo |-> FALSE,
          cfg |-> Cfg0,      \* the API switches of this instance
          pan |-> Pan0,      \* controller 10 per real-time MIDI channel; -1 = not known to the model (a song played in between)
          ct |-> "-",        \* per-instance chip type (only used with FixChipType)
          lfod |-> -2,       \* LFO step latched at the last register-0x22 write: -2 = LFO off
          taint |-> {}]      \* cells whose foreign value went into the chips' state (resampler history, phase) by an earlier
                             \* generate call; stays until the chips are rebuilt

LtKey(I) == IF I.pcm /\ CanPcm(I.emu) THEN I.rate ELSE 0

\* ---- one chip set (re)built by OPN2::reset for instance I: constructor, setRate, register 0x22
OnceTable(g, I, grp, cell) ==
  [g |-> [g EXCEPT !.tab = @ \cup {grp}], inst |-> I,
   acc |-> IF FixTables THEN {} ELSE IF grp \in g.tab THEN {<<cell, "R">>} ELSE {<<cell, "R">>, <<cell, "W">>}]
ChipInit(g, I) ==
  CASE I.emu = EMU_MAME ->
         [g |-> [g EXCEPT !.tab = @ \cup {"mame"}], inst |-> I, acc |-> IF FixTables THEN {} ELSE {<<"mame.tables", "W">>}]
    [] I.emu = EMU_MAME2608 ->
         [g |-> [g EXCEPT !.tab = @ \cup {"mamefm"}], inst |-> I, acc |-> IF FixTables THEN {} ELSE {<<"mamefm.tables", "W">>}]
    [] I.emu \in {EMU_NUKED3438, EMU_NUKED2612} ->
         LET m == IF I.emu = EMU_NUKED3438 THEN "ym3438" ELSE "ym2612" IN
         IF FixChipType THEN [g |-> g, inst |-> [I EXCEPT !.ct = m], acc |-> {}]
         ELSE [g |-> [g EXCEPT !.ct = m], inst |-> I, acc |-> {<<"nuked.chip_type", "W">>}]
    [] I.emu = EMU_GENS -> OnceTable(g, I, "gens", "gens.tables")
    [] I.emu = EMU_NP2 ->
         LET t == OnceTable(g, I, "np2", "np2.tables") IN
         IF FixLfoTable THEN [g |-> t.g, inst |-> [I EXCEPT !.lfod = IF I.lfo THEN LtKey(I) ELSE -2], acc |-> t.acc]
         ELSE [g |-> [t.g EXCEPT !.lt = LtKey(I)],                         \* SetPrescaler of the own chip
               inst |-> [I EXCEPT !.lfod = IF I.lfo THEN LtKey(I) ELSE -2],   \* reg 0x22 right after it
               acc |-> t.acc \cup {<<"np2.lfotable", "W">>, <<"np2.lfotable", "R">>}]
    [] OTHER -> [g |-> g, inst |-> I, acc |-> {}]

\* cells a generate call reads, and the values it computes with
GenAcc(I) ==
  IF FixTables THEN (IF I.emu \in {EMU_NUKED3438, EMU_NUKED2612} /\ ~FixChipType THEN {<<"nuked.chip_type", "R">>} ELSE {})
  ELSE CASE I.emu = EMU_MAME -> {<<"mame.tables", "R">>}
         [] I.emu = EMU_MAME2608 -> {<<"mamefm.tables", "R">>}
         [] I.emu \in {EMU_NUKED3438, EMU_NUKED2612} -> IF FixChipType THEN {} ELSE {<<"nuked.chip_type", "R">>}
         [] I.emu = EMU_GENS -> {<<"gens.tables", "R">>}
         [] I.emu = EMU_NP2 -> {<<"np2.tables", "R">>}
         [] OTHER -> {}
Eff(g, I) == [ct |-> IF I.emu \in {EMU_NUKED3438, EMU_NUKED2612} THEN (IF FixChipType THEN I.ct ELSE g.ct) ELSE "-",
              lfod |-> IF I.emu = EMU_NP2 THEN I.lfod ELSE -2,
              pan |-> {}]
NoEff == [ct |-> "-", lfod |-> -2, pan |-> {}]
\* the panning decisions a call of instance I may make (any sounding note may be re-panned by an evacuation / arpeggio step)
PanKnown(I) == \A c \in DOMAIN I.pan : I.pan[c] >= 0
PanLaw(I) == { PanWrite(I.cfg.softpan, I.pan[c]) : c \in DOMAIN I.pan }
\* register 0x22 (OPN2::commitLFOSetup) on the existing chips: opn2_setLfoEnabled, opn2_setLfoFrequency
LfoCommit(g, I, on) ==
  IF I.emu = EMU_NP2 /\ ~FixLfoTable
  THEN [g |-> g, inst |-> [I EXCEPT !.lfo = on, !.lfod = IF on THEN g.lt ELSE -2], acc |-> {<<"np2.lfotable", "R">>}, eff |-> NoEff]
  ELSE [g |-> g, inst |-> [I EXCEPT !.lfo = on, !.lfod = IF on /\ I.emu = EMU_NP2 THEN LtKey(I) ELSE -2], acc |-> {}, eff |-> NoEff]

\* ---- one API call of instance I in a world with globals g.  ev.e is the call, other fields its arguments.
Local(g, I, ev) ==
  CASE ev.e = "Create" ->
         \* opn2_init builds MAME chips first (opn2_getLowestEmulator), then opn2_switchEmulator / opn2_setNumChips rebuild
         LET a == ChipInit(g, [Inst0 EXCEPT !.alive = TRUE, !.emu = EMU_MAME, !.rate = ev.rate])
             b == ChipInit(a.g, [a.inst EXCEPT !.emu = ev.emu])
         IN [g |-> b.g, inst |-> b.inst, acc |-> a.acc \cup b.acc, eff |-> NoEff]
    [] ev.e = "Switch" -> LET b == ChipInit(g, [I EXCEPT !.emu = ev.emu]) IN [g |-> b.g, inst |-> b.inst, acc |-> b.acc, eff |-> NoEff]
    [] ev.e = "Pcm" -> LET b == ChipInit(g, [I EXCEPT !.pcm = (ev.v # 0)]) IN [g |-> b.g, inst |-> b.inst, acc |-> b.acc, eff |-> NoEff]
    [] ev.e \in {"Chips", "Fam"} -> LET b == ChipInit(g, I) IN [g |-> b.g, inst |-> b.inst, acc |-> b.acc, eff |-> NoEff]
    [] ev.e \in {"Reset", "Load"} ->      \* resetMIDI: the MIDI channels are built anew; the settings stay
         LET b == ChipInit(g, [I EXCEPT !.pan = Pan0]) IN [g |-> b.g, inst |-> b.inst, acc |-> b.acc, eff |-> NoEff]
    [] ev.e = "Lfo" -> LfoCommit(g, I, ev.v # 0)      \* opn2_setLfoEnabled -> commitLFOSetup: register 0x22 on the existing chips
    [] ev.e = "Set" ->      \* a switch of this instance; nobody else's
         LET J == [I EXCEPT !.cfg = [@ EXCEPT ![ev.s] = ev.v]] IN
         IF ev.s = "lfofreq" THEN LfoCommit(g, J, J.lfo) ELSE [g |-> g, inst |-> J, acc |-> {}, eff |-> NoEff]
    [] ev.e = "Ctl" ->      \* controller 10 re-pans the sounding notes of the channel; the other controllers stay inside the player
         LET J == IF ev.c = 10 THEN [I EXCEPT !.pan[ev.ch] = ev.v] ELSE I IN
         [g |-> g, inst |-> J, acc |-> {}, eff |-> [NoEff EXCEPT !.pan = PanLaw(J)]]
    [] ev.e = "On" -> [g |-> g, inst |-> I, acc |-> {}, eff |-> [NoEff EXCEPT !.pan = PanLaw(I)]]      \* noteUpdate(Upd_All): setPan of every voice
    [] ev.e = "Gen" -> [g |-> g, inst |-> I, acc |-> GenAcc(I), eff |-> [Eff(g, I) EXCEPT !.pan = PanLaw(I)]]
    [] ev.e = "Play" ->     \* the song has its own controllers and may reset all of them (loop, system exclusive): a channel away
                            \* from the centre is not known afterwards
         [g |-> g, inst |-> [I EXCEPT !.pan = [c \in DOMAIN @ |-> IF @[c] = 64 THEN 64 ELSE -1]], acc |-> GenAcc(I), eff |-> Eff(g, I)]
    [] ev.e = "Close" -> [g |-> g, inst |-> Inst0, acc |-> {}, eff |-> NoEff]
    [] OTHER -> [g |-> g, inst |-> I, acc |-> {}, eff |-> NoEff]       \* Off / Bend / Panic: register writes only

\* ---- N instances in one process, each paired with the solo world of its own history
S0(N) == [inst |-> [i \in 1..N |-> Inst0], g |-> G0,
          solo |-> [i \in 1..N |-> [inst |-> Inst0, g |-> G0]],
          acc |-> [i \in 1..N |-> {}],
          last |-> [i |-> 0, acc |-> {}, diag |-> {}]]
Enabled(S, ev) == ev.i \in DOMAIN S.inst /\ (IF ev.e = "Create" THEN ~S.inst[ev.i].alive ELSE S.inst[ev.i].alive)
Step(S, ev) ==
  LET i == ev.i
      w == Local(S.g, S.inst[i], ev)
      s == Local(S.solo[i].g, S.solo[i].inst, ev)
      now == (IF w.eff.ct # s.eff.ct THEN {"nuked-chip_type"} ELSE {}) \cup (IF w.eff.lfod # s.eff.lfod THEN {"np2-lfotable"} ELSE {})
      audio == ev.e \in {"Gen", "Play"}
      diag == (IF audio THEN now \cup S.inst[i].taint ELSE {}) \cup (IF w.eff.pan # s.eff.pan THEN {"pan-setting"} ELSE {})
      taint == IF ev.e \in {"Create", "Switch", "Pcm", "Chips", "Reset", "Load", "Fam", "Close"} THEN {}      \* OPN2::reset builds new chips
               ELSE IF audio THEN diag ELSE S.inst[i].taint
  IN [inst |-> [S.inst EXCEPT ![i] = [w.inst EXCEPT !.taint = taint]], g |-> w.g,
      solo |-> [S.solo EXCEPT ![i] = [inst |-> s.inst, g |-> s.g]],
      acc |-> [S.acc EXCEPT ![i] = @ \cup w.acc],
      last |-> [i |-> i, acc |-> w.acc, diag |-> diag]]

\* ---- properties (sets of violated labels)
P1(S) == { "interference@" \o d : d \in S.last.diag }
Races(acc) == { c \in Cells : \E i, j \in DOMAIN acc : i # j /\ <<c, "W">> \in acc[i] /\ (<<c, "W">> \in acc[j] \/ <<c, "R">> \in acc[j]) }
P2(S) == { "race@" \o c : c \in Races(S.acc) }
=============================================================================
