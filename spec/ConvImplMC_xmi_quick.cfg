SPECIFICATION MCSpec
CONSTANTS
  Fmt = "xmi"
  MaxLen = 2
  MaxLen2 = 2
  Tempi = {500000, 480000}
INVARIANT NoBad
CHECK_DEADLOCK FALSE
