SPECIFICATION MCSpec
CONSTANTS
  Fmt = "xmi"
  MaxLen = 3
  MaxLen2 = 3
  Tempi = {500000, 480000}
INVARIANT NoBad
CHECK_DEADLOCK FALSE
