------------------------------- MODULE AudioMC -------------------------------
(* Leg (A) of C13: exhaustive exploration of the two rendering loops of spec/Audio.tla for a small
   scope: a period buffer of Cap frames, D time units per frame, the request sizes -3..12, a
   format list covering interleaved / planar / reversed / gapped layouts, byte-granular layouts (record
   strides that are not a multiple of the container size, unaligned pointers) and refused pairs,
   songs given as event gaps.  Every call of every reachable state is judged by CallProps.
   In simulation mode (Emit) TLC prints behaviours (index lists into Ops) that the check replays
   on the real library. *)
EXTENDS Audio, Json
CONSTANTS MaxDepth, EmitDepth, Cap, D
VARIABLES S, bad, hist
vars == <<S, bad, hist>>
View == <<S, bad>>
P == [cap |-> Cap, D |-> D, track |-> TRUE]

Fmts == << [t |-> S16, c |-> 2, so |-> 4,  lb |-> 0,  rb |-> 2],     \* interleaved (the short* API)
           [t |-> U8,  c |-> 1, so |-> 1,  lb |-> 0,  rb |-> 16],    \* planar, dense
           [t |-> S24, c |-> 4, so |-> 12, lb |-> 4,  rb |-> 8],     \* interleaved with a gap
           [t |-> F32, c |-> 4, so |-> 4,  lb |-> 64, rb |-> 0],     \* planar, right plane first
           [t |-> U16, c |-> 4, so |-> 8,  lb |-> 0,  rb |-> 4],     \* wider container
           [t |-> F64, c |-> 8, so |-> 16, lb |-> 0,  rb |-> 8],
           \* byte-granular layouts: the record stride is not a multiple of the container, the pointers are not aligned to it
           [t |-> S16, c |-> 2, so |-> 3,  lb |-> 1,  rb |-> 20],    \* planar, stride = container + 1 (odd)
           [t |-> S32, c |-> 4, so |-> 9,  lb |-> 1,  rb |-> 5],     \* interleaved 9-byte records
           [t |-> U16, c |-> 4, so |-> 6,  lb |-> 1,  rb |-> 40],    \* planar, even stride between container and 2 containers
           [t |-> S24, c |-> 4, so |-> 10, lb |-> 1,  rb |-> 6],     \* unused bytes between left and right and after the frame
           [t |-> S16, c |-> 1, so |-> 2,  lb |-> 0,  rb |-> 1],     \* refused: container too small
           [t |-> S32, c |-> 8, so |-> 16, lb |-> 0,  rb |-> 8],     \* refused: no 8-byte integers
           [t |-> F64, c |-> 4, so |-> 8,  lb |-> 0,  rb |-> 4],     \* refused
           [t |-> 10,  c |-> 2, so |-> 4,  lb |-> 0,  rb |-> 2] >>   \* refused: not a sample type
Sizes == <<-3, -2, -1, 0, 1, 2, 3, 4, 5, 6, 7, 9, 12>>
Ops == [i \in 1..(2 * Len(Sizes) * Len(Fmts)) |->
          LET j == (i - 1) % (Len(Sizes) * Len(Fmts)) IN
          [o |-> IF i <= Len(Sizes) * Len(Fmts) THEN "gen" ELSE "play",
           n |-> Sizes[(j \div Len(Fmts)) + 1], fi |-> (j % Len(Fmts)) + 1]]
\* event gaps in time units (D per frame): dense events, gaps below one frame, gaps longer than a period buffer
Songs == << <<>>, <<1, 1, 3>>, <<D * Cap * 2 + 1>>, <<0, D, 2 * D + 1, D * Cap + D>>, <<3, 3, 3, 3>>,
           <<2, 5, 1, 7, 0, 3, 9, 2, 2>>, <<D * Cap + 1, 1, D * Cap * 3, 2>> >>

\* hist[1] = index of the song, then the indices of the calls
\* the fast footprint test of Audio.tla agrees with its definition
ASSUME \A fi \in 1..6 : \A nf \in {0, 1, 3} : \A a \in {0, 1, 4, 7, 8, 15, 16, 63, 64, 70} : \A ln \in {1, 2, 4, 5, 12, 13, 30} :
         \A st \in {0, 1, 4, 8, 12, 16, 24} : \A n \in {1, 2, 3} :
           (n > 1 => st >= ln) =>
             RunIn(<<a, ln, st, n>>, 0, Fmts[fi], nf) = RunInLiteral(<<a, ln, st, n>>, 0, Fmts[fi], nf)
\* ... and for the byte-granular layouts: runs that start at, one byte before / after and in the middle of a slot,
\* strides equal to, dividing, a multiple of and unrelated to the record stride
UFmts == << Fmts[7], Fmts[8], Fmts[9], Fmts[10], [t |-> F64, c |-> 8, so |-> 17, lb |-> 1, rb |-> 9], [t |-> U16, c |-> 2, so |-> 5, lb |-> 3, rb |-> 0] >>
ASSUME \A fi \in DOMAIN UFmts : \A nf \in {0, 1, 3} :
         LET F == UFmts[fi] IN
         \A a \in {0, F.lb - 1, F.lb, F.lb + 1, F.lb + F.c, F.lb + F.so - 1, F.lb + F.so, F.lb + F.so + 1,
                    F.lb + 2 * F.so, F.lb + 3 * F.so, F.rb - 1, F.rb, F.rb + F.so, F.rb + 2 * F.so + 1} :
           \A ln \in {1, F.c - 1, F.c, F.c + 1, 2 * F.c, F.so} :
             \A st \in {0, 1, F.c, F.c + 1, F.so - (F.so % F.c), F.so, 2 * F.so, Abs(F.rb - F.lb)} : \A n \in {1, 2, 3} :
               (a >= 0 /\ ln >= 1 /\ (n > 1 => st >= ln)) =>
                 RunIn(<<a, ln, st, n>>, 0, F, nf) = RunInLiteral(<<a, ln, st, n>>, 0, F, nf)

\* the table form of the integer conversions agrees with the documented one
ASSUME \A t \in Types \ {F32, F64} :
         \A x \in {-8388608, -70000, -32769, -32768, -32767, -32513, -32512, -257, -256, -255, -1, 0, 1, 127, 128, 255, 256, 257,
                    32511, 32512, 32766, 32767, 32768, 70000, 8388607} \cup (-600..600) :
           DocIntT(IntTab(t), x) = DocInt(t, x)

Init == \E si \in DOMAIN Songs : S = S0(Songs[si]) /\ bad = {} /\ hist = <<si>>
Next == \E i \in DOMAIN Ops :
  LET op == Ops[i]
      F  == Fmts[op.fi]
      R  == IF op.o = "gen" THEN GenCall(S, op.n, F, P) ELSE PlayCall(S, op.n, F, P)
  IN /\ S' = [R.s EXCEPT !.g = 0]
     /\ bad' = bad \cup CallProps(op.o, S, op.n, F, R, P)
     /\ hist' = Append(hist, i)
Spec == Init /\ [][Next]_vars
NoBad == bad = {}
DepthBound == TLCGet("level") < MaxDepth
Emit == (Len(hist) = EmitDepth + 1) => PrintT(<<"BEHAVIOUR", ToJson(hist)>>)
=============================================================================
