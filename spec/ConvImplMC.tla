----------------------------- MODULE ConvImplMC -----------------------------
(* Leg (A) of C17 with the implementation models: for EVERY small abstract score (the enumerations of ConvMC: every event
   type x channels x delays, <= MaxLen events) TLC checks

        play(Mus2Mid(encode(score)))  conforms to  MusRef(score)           (Fmt = "mus")
        play(Xmi2Mid(encode(file)))   conforms to  XmiRef(file)            (Fmt = "xmi")

   encode = the byte layout of the format (MusRef!MusBytes / XmiRef!XmiBytes), Mus2Mid / Xmi2Mid = the implementation-shaped
   converter models, play = the reference semantics of SMF (SmfRef: track ticks, tempo map, items) applied to the abstract
   SMF the converter model writes, with division/tempo turned into EXACT microseconds (floor of the rational value; SmfRef's own
   TimeOf assumes integral microseconds per tick, which neither converter produces).  The resulting delivery log is judged by
   the SAME monitors that judge real executions (ConvTrace!MusPlayFails / XmiPlayFails: per tick group exactly the reference
   events, for MUS modulo exactly the CC7 = 100 artefacts, times within the tolerances of the property), plus the internal
   consistency of the written SMF (declared track length = size of the events, exactly one End-of-Track and nothing behind it).
   One TLC state per (score prefix, tempo).  Failures that are listed findings of the REAL converters and that the models
   reproduce (F16c bank select 127 -> 0, F16d time-division truncation) go to `known`, everything else to `bad`
   (INVARIANT NoBad), as in SeqMC.  The ASSUMEs at the end pin the two known findings and the converter's treatment of the
   AIL controllers to witnesses (printed as KNOWN-WITNESS lines).
   Order inside a tick is the sequencer's business (C07): play delivers controllers before note-ons.               *)
EXTENDS ConvTrace
CONSTANTS Fmt, MaxLen, Tempi
VARIABLES sc, tp, bad, known
MC == INSTANCE ConvMC WITH sc <- sc, bad <- bad, Fmt <- Fmt, MaxLen <- MaxLen
mvars == <<sc, tp, bad, known, l, src, sel, prev, fails, cnt, exec, drift>>

KnownLabels == {"xmi-bank127", "xmi-tempo-rounding"}

---------------------------------------------------------------------------
(* abstract SMF (output form of the converter models) -> SmfRef song *)
AbsEvent(x) ==
  LET st == x[2]  hi == st \div 16  ch == st % 16 IN
  CASE hi = 8  -> [k |-> "off", ch |-> ch, n |-> x[3], v |-> x[4]]
    [] hi = 9  -> [k |-> "on", ch |-> ch, n |-> x[3], v |-> x[4]]
    [] hi = 10 -> [k |-> "nat", ch |-> ch, n |-> x[3], v |-> x[4]]
    [] hi = 11 -> [k |-> "cc", ch |-> ch, n |-> x[3], v |-> x[4]]
    [] hi = 12 -> [k |-> "pc", ch |-> ch, p |-> x[3]]
    [] hi = 13 -> [k |-> "cat", ch |-> ch, v |-> x[3]]
    [] hi = 14 -> [k |-> "bend", ch |-> ch, v |-> x[3] + 128 * x[4]]
    [] st = 255 /\ x[3] = 81 /\ Len(x) = 6 -> [k |-> "tempo", us |-> x[4] * 65536 + x[5] * 256 + x[6]]     \* read big-endian, as SMF says
    [] st = 255 -> [k |-> "text", ty |-> x[3], b |-> SubSeq(x, 4, Len(x))]
    [] OTHER -> [k |-> "sysex", b |-> SubSeq(x, 3, Len(x))]
IsEot(x) == x[2] = 255 /\ x[3] = 47
AbsSong(o) ==
  LET ev == o.tracks[1].ev
      E == { i \in DOMAIN ev : IsEot(ev[i]) }
      k == IF E = {} THEN Len(ev) + 1 ELSE CHOOSE i \in E : \A j \in E : i <= j
      s0 == [div |-> o.div, fmt |-> o.fmt,
             tracks |-> << [ev |-> [i \in 1..(k - 1) |-> <<ev[i][1], AbsEvent(ev[i])>>], eot |-> IF E = {} THEN 0 ELSE ev[k][1]] >>]
  IN s0 @@ [tempi |-> TempoEvents(s0), eotOK |-> E # {} /\ k = Len(ev)]

\* exact song time of tick T in microseconds (floor): whole part and remainder numerator are accumulated per tempo segment
RECURSIVE ExactFrom(_, _, _, _, _)
ExactFrom(song, from, upto, w, r) ==
  IF from >= upto THEN w + r \div song.div
  ELSE LET nexts == { x \in TempoTicks(song) : x > from /\ x < upto }
           stop  == IF nexts = {} THEN upto ELSE CHOOSE x \in nexts : \A y \in nexts : x <= y
           usq   == TempoAt(song, from)
       IN ExactFrom(song, stop, upto, w + (stop - from) * (usq \div song.div), r + (stop - from) * (usq % song.div))
ExactUs(song, tick) == ExactFrom(song, 0, tick, 0, 0)

\* the Play record of the reference SMF semantics: one call delivering everything, controllers before note-ons at a tick
PlayRec(song) ==
  LET its == AllItems(song)
      ticks == SortSet({ its[i].tick : i \in DOMAIN its })
      us == [j \in DOMAIN ticks |-> ExactUs(song, ticks[j])] \o <<>>
      ent(it, j) == <<"e", us[j], it.ty, it.st, it.ch, it.d>>
      grp(j) == LET a == SelectSeq(its, LAMBDA it : it.tick = ticks[j] /\ it.cls # "on")
                    b == SelectSeq(its, LAMBDA it : it.tick = ticks[j] /\ it.cls = "on")
                IN [i \in DOMAIN a |-> ent(a[i], j)] \o [i \in DOMAIN b |-> ent(b[i], j)]
      log == FlattenSeq([j \in DOMAIN ticks |-> grp(j)])
  IN [e |-> "Play", calls |-> << <<0, 0, 0, 1, log>> >>, atend |-> IF song.eotOK THEN 1 ELSE 0, trunc |-> 0]

\* size in bytes of a track written from abstract events (independent of the models' own byte counting)
AbsVlqLen(v) == IF v < 128 THEN 1 ELSE IF v < 16384 THEN 2 ELSE IF v < 2097152 THEN 3 ELSE 4
AbsTrackLen(trk) ==
  SumSeq([i \in DOMAIN trk.ev |->
     LET x == trk.ev[i]  n == Len(x) IN
     AbsVlqLen(x[1]) + (1 - trk.rs[i]) +
     (IF x[2] = 255 THEN 1 + AbsVlqLen(n - 3) + (n - 3) ELSE IF x[2] >= 240 THEN AbsVlqLen(n - 2) + (n - 2) ELSE n - 2)])
SmfShapeFails(o) ==
  LET trk == o.tracks[1]  E == { i \in DOMAIN trk.ev : IsEot(trk.ev[i]) } IN
  Lbl(Len(o.tracks) = 1 /\ o.ntr = 1, "smf-track-count") \cup Lbl(trk.len = AbsTrackLen(trk), "smf-track-length") \cup
  Lbl(E = {Len(trk.ev)}, "smf-end-of-track") \cup Lbl(o.div \in 1..32767, "smf-division") \cup
  \* running status only for a channel status equal to the previous event's
  Lbl(\A i \in DOMAIN trk.rs : trk.rs[i] = 1 => (i > 1 /\ trk.ev[i][2] < 240 /\ trk.ev[i - 1][2] = trk.ev[i][2]), "smf-running-status")

---------------------------------------------------------------------------
(* MUS *)
MusJudgeScore(score, chans) ==
  LET bytes == MusBytes(score, chans, <<>>)
      o == Mus2Mid(bytes, 0)
  IN IF "unmodelled" \in DOMAIN o THEN [bad |-> {"model-unmodelled"}, known |-> {}]
     ELSE IF ~WellFormed(score) THEN [bad |-> {}, known |-> {}]           \* outside the quantifier of the property
     ELSE IF ~o.ok THEN [bad |-> {"model-rejects-wellformed"}, known |-> {}]
     ELSE LET s == MkMusSrc(score, bytes)
              f == MusPlayFails(PlayRec(AbsSong(o)), s) \cup SmfShapeFails(o) \cup Lbl(o.fmt = 0, "smf-format")
          IN [bad |-> f \ KnownLabels, known |-> f \cap KnownLabels]
MusJudge(s) == MusJudgeScore(MC!MusScore(s), 2)
\* the full channel range (16 events, beyond MaxLen): the 16 channels in 8 stride orders, each with a note using the remembered volume
MusWideBad ==
  LET wide(st) == [i \in 1..16 |-> [k |-> "play", ch |-> (i * st) % 16, n |-> 40 + i, v |-> 30 + i, dl |-> i % 3]] \o
                  [i \in 1..16 |-> [k |-> "play", ch |-> (i * st) % 16, n |-> 41 + i, v |-> -1, dl |-> 1]] \o
                  << [k |-> "end", ch |-> 0, dl |-> 0] >>
  IN UNION { MusJudgeScore(wide(st), 15).bad : st \in {1, 3, 5, 7, 9, 11, 13, 15} }

(* XMI *)
XmiExtra == { <<dt, [k |-> "cc", ch |-> 0, n |-> 0, v |-> 127]>> : dt \in {0, 5} } \cup { <<0, [k |-> "cc", ch |-> 9, n |-> 0, v |-> 5]>> }
XmiSongT(s, us) == [ev |-> << <<0, [k |-> "tempo", us |-> us]>> >> \o s, eot |-> 130]
XmiJudgeFile(songs, which) ==
  LET f == [songs |-> songs]
      bytes == XmiBytes(f)
      o == Xmi2Mid(bytes)
  IN IF "unmodelled" \in DOMAIN o THEN [bad |-> {"model-unmodelled"}, known |-> {}]
     ELSE IF ~XmiWellFormed(f) THEN [bad |-> {}, known |-> {}]
     ELSE IF ~o.ok THEN [bad |-> {"model-rejects-wellformed"}, known |-> {}]
     ELSE IF Len(o.songs) # Len(songs) THEN [bad |-> {"xmi-songs-count"}, known |-> {}]
     ELSE LET s == MkXmiSrc(songs, bytes)
              f1(n) == XmiPlayFails(PlayRec(AbsSong(o.songs[n])), s, n - 1) \cup SmfShapeFails(o.songs[n]) \cup
                       Lbl(o.songs[n].fmt = (IF Len(songs) > 1 THEN 2 ELSE 0), "smf-format")
              ff == UNION { f1(n) : n \in which }
          IN [bad |-> ff \ KnownLabels, known |-> ff \cap KnownLabels]
\* the sequence alone, and as second sequence of a two-sequence file whose first one has another tempo, a TIMB chunk and an
\* odd-length EVNT chunk (padding): conversion of a sequence must not depend on its neighbours
XmiOther == [ev |-> << <<0, [k |-> "tempo", us |-> 250000]>>, <<3, [k |-> "pc", ch |-> 2, p |-> 9]>> >>, eot |-> 1, timb |-> << <<5, 0>>, <<7, 127>> >>]
XmiJudge(s, us) ==
  LET a == XmiJudgeFile(<< XmiSongT(s, us) >>, {1})
      b == IF Len(s) <= 1 THEN XmiJudgeFile(<< XmiOther, XmiSongT(s, us) >>, {1, 2}) ELSE [bad |-> {}, known |-> {}]
  IN [bad |-> a.bad \cup b.bad, known |-> a.known \cup b.known]

---------------------------------------------------------------------------
Alphabet == IF Fmt = "mus" THEN MC!MusAlphabet ELSE MC!XmiAlphabet \cup XmiExtra
Judge(s, t) == IF Fmt = "mus" THEN MusJudge(s) ELSE XmiJudge(s, t)
MCInit == /\ sc = <<>> /\ tp \in (IF Fmt = "mus" THEN {0} ELSE Tempi)
          /\ LET j == Judge(<<>>, tp) IN bad = j.bad \cup (IF Fmt = "mus" THEN MusWideBad ELSE {}) /\ known = j.known
          /\ l = 1 /\ src = Src0 /\ sel = 0 /\ prev = Prev0 /\ fails = <<>> /\ cnt = Cnt0 /\ exec = 0 /\ drift = <<>>
MCNext == /\ Len(sc) < MaxLen
          /\ \E x \in Alphabet : /\ sc' = Append(sc, x)
                                 /\ LET j == Judge(Append(sc, x), tp) IN bad' = j.bad /\ known' = j.known
          /\ UNCHANGED <<tp, l, src, sel, prev, fails, cnt, exec, drift>>
MCSpec == MCInit /\ [][MCNext]_mvars
NoBad == bad = {}

---------------------------------------------------------------------------
(* witnesses, evaluated once at start-up *)
W1 == XmiJudge(<< <<5, [k |-> "cc", ch |-> 0, n |-> 0, v |-> 127]>> >>, 500000)
W2 == XmiJudge(<< <<200, [k |-> "on", ch |-> 0, n |-> 60, v |-> 100, dur |-> 1]>> >>, 480000)
W3 == XmiJudge(<< <<200, [k |-> "on", ch |-> 0, n |-> 60, v |-> 100, dur |-> 1]>> >>, 500000)
\* controllers are data to the converter: 116/117 (FOR/NEXT) and 110..120 pass through, 114 -> 32 except on channel 9
CtlFile == [songs |-> << [ev |-> << <<0, [k |-> "cc", ch |-> 1, n |-> 116, v |-> 2]>>, <<4, [k |-> "cc", ch |-> 1, n |-> 117, v |-> 127]>>,
                                    <<0, [k |-> "cc", ch |-> 1, n |-> 114, v |-> 3]>>, <<0, [k |-> "cc", ch |-> 9, n |-> 114, v |-> 3]>>,
                                    <<0, [k |-> "cc", ch |-> 2, n |-> 110, v |-> 1]>> >>, eot |-> 2] >>]
W4 == Xmi2Mid(XmiBytes(CtlFile))
ASSUME Fmt = "xmi" =>
  /\ PrintT("KNOWN-WITNESS F16c (CC0 = 127 at tick 5, tempo 500000): " \o ToString(W1)) /\ W1 = [bad |-> {}, known |-> {"xmi-bank127"}]
  /\ PrintT("KNOWN-WITNESS F16d (tempo 480000, note at tick 200): " \o ToString(W2)) /\ W2 = [bad |-> {}, known |-> {"xmi-tempo-rounding"}]
  /\ W3 = [bad |-> {}, known |-> {}]
  /\ PrintT("WITNESS AIL controllers 116 117 114 114@ch9 110, division " \o ToString(W4.songs[1].div) \o ": " \o ToString(W4.songs[1].tracks[1].ev))
  /\ W4.songs[1].div = 60          \* no tempo meta: (500000 * 3) / 25000
  /\ W4.songs[1].tracks[1].ev = << <<0, 177, 116, 2>>, <<12, 177, 117, 127>>, <<0, 177, 32, 3>>, <<0, 185, 114, 3>>, <<0, 178, 110, 1>>, <<6, 255, 47>> >>
  /\ W4.songs[1].tracks[1].rs = <<0, 1, 1, 0, 0, 0>>
=============================================================================
