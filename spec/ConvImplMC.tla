----------------------------- MODULE ConvImplMC -----------------------------
(* Leg (A) of C17 with the implementation models: for EVERY small abstract score (the enumerations of ConvMC: every event
   type x channels x delays, <= MaxLen events) TLC checks

        play(Mus2Mid(encode(score)))  conforms to  MusRef(score)           (Fmt = "mus")
        play(Xmi2Mid(encode(file)))   conforms to  XmiRef(file)            (Fmt = "xmi")

   encode = the byte layout of the format (MusRef!MusBytes / XmiRef!XmiBytes), Mus2Mid / Xmi2Mid = the implementation-shaped
   converter models, play = the reference semantics of SMF (SmfRef: track ticks, tempo map, items) applied to the abstract
   SMF the converter model writes, with division/tempo turned into EXACT microseconds (floor of the rational value; SmfRef's own
   TimeOf assumes integral microseconds per tick, which neither converter produces).  The resulting delivery log is judged by
   the SAME monitors that judge real executions (ConvTrace!MusPlayFails / XmiPlayFails: per tick group exactly the reference
   events, for MUS modulo exactly the CC7 = 100 artefacts, times within the tolerances of the property), plus the internal
   consistency of the written SMF (declared track length = size of the events, exactly one End-of-Track and nothing behind it).
   Two alphabets (variable va): 1 = the enumerations of ConvMC (<= MaxLen events); 2 = the "table" alphabets below (<= MaxLen2
   events): every MUS controller number 0..9 and system event 10..14, pitch wheel extremes and odd values, notes at the ends
   of the key/volume range, a three-digit delay; for XMI every channel-voice status, controllers 0/1/32/64/121/127, wheel
   extremes, two- and three-byte durations and intervals at the 127/128 split of the interval encoding.
   One TLC state per (alphabet, score prefix, tempo).  Failures that are listed findings of the REAL converters and that the models
   reproduce (F16c bank select 127 -> 0, F16d time-division truncation) go to `known`, everything else to `bad`
   (INVARIANT NoBad), as in SeqMC.  The ASSUMEs at the end pin the two known findings and the converter's treatment of the
   AIL controllers to witnesses (printed as KNOWN-WITNESS lines).
   Order inside a tick is the sequencer's business (C07): play delivers controllers before note-ons.               *)
EXTENDS ConvTrace
CONSTANTS Fmt, MaxLen, MaxLen2, Tempi
VARIABLES sc, tp, va, bad, known
MC == INSTANCE ConvMC WITH sc <- sc, bad <- bad, Fmt <- Fmt, MaxLen <- MaxLen
mvars == <<sc, tp, va, bad, known, l, src, sel, prev, fails, cnt, exec, drift>>

KnownLabels == {"xmi-bank127", "xmi-tempo-rounding"}

---------------------------------------------------------------------------
(* abstract SMF (output form of the converter models) -> SmfRef song *)
AbsEvent(x) ==
  LET st == x[2]  hi == st \div 16  ch == st % 16 IN
  CASE hi = 8  -> [k |-> "off", ch |-> ch, n |-> x[3], v |-> x[4]]
    [] hi = 9  -> [k |-> "on", ch |-> ch, n |-> x[3], v |-> x[4]]
    [] hi = 10 -> [k |-> "nat", ch |-> ch, n |-> x[3], v |-> x[4]]
    [] hi = 11 -> [k |-> "cc", ch |-> ch, n |-> x[3], v |-> x[4]]
    [] hi = 12 -> [k |-> "pc", ch |-> ch, p |-> x[3]]
    [] hi = 13 -> [k |-> "cat", ch |-> ch, v |-> x[3]]
    [] hi = 14 -> [k |-> "bend", ch |-> ch, v |-> x[3] + 128 * x[4]]
    [] st = 255 /\ x[3] = 81 /\ Len(x) = 6 -> [k |-> "tempo", us |-> x[4] * 65536 + x[5] * 256 + x[6]]     \* read big-endian, as SMF says
    [] st = 255 -> [k |-> "text", ty |-> x[3], b |-> SubSeq(x, 4, Len(x))]
    [] OTHER -> [k |-> "sysex", b |-> SubSeq(x, 3, Len(x))]
IsEot(x) == x[2] = 255 /\ x[3] = 47
AbsSong(o) ==
  LET ev == o.tracks[1].ev
      E == { i \in DOMAIN ev : IsEot(ev[i]) }
      k == IF E = {} THEN Len(ev) + 1 ELSE CHOOSE i \in E : \A j \in E : i <= j
      s0 == [div |-> o.div, fmt |-> o.fmt,
             tracks |-> << [ev |-> [i \in 1..(k - 1) |-> <<ev[i][1], AbsEvent(ev[i])>>], eot |-> IF E = {} THEN 0 ELSE ev[k][1]] >>]
  IN s0 @@ [tempi |-> TempoEvents(s0), eotOK |-> E # {} /\ k = Len(ev)]

\* exact song time of tick T in microseconds (floor): whole part and remainder numerator are accumulated per tempo segment
RECURSIVE ExactFrom(_, _, _, _, _)
ExactFrom(song, from, upto, w, r) ==
  IF from >= upto THEN w + r \div song.div
  ELSE LET nexts == { x \in TempoTicks(song) : x > from /\ x < upto }
           stop  == IF nexts = {} THEN upto ELSE CHOOSE x \in nexts : \A y \in nexts : x <= y
           usq   == TempoAt(song, from)
       IN ExactFrom(song, stop, upto, w + (stop - from) * (usq \div song.div), r + (stop - from) * (usq % song.div))
ExactUs(song, tick) == ExactFrom(song, 0, tick, 0, 0)

\* the Play record of the reference SMF semantics: one call delivering everything, controllers before note-ons at a tick
PlayRec(song) ==
  LET its == AllItems(song)
      ticks == SortSet({ its[i].tick : i \in DOMAIN its })
      us == [j \in DOMAIN ticks |-> ExactUs(song, ticks[j])] \o <<>>
      ent(it, j) == <<"e", us[j], it.ty, it.st, it.ch, it.d>>
      grp(j) == LET a == SelectSeq(its, LAMBDA it : it.tick = ticks[j] /\ it.cls # "on")
                    b == SelectSeq(its, LAMBDA it : it.tick = ticks[j] /\ it.cls = "on")
                IN [i \in DOMAIN a |-> ent(a[i], j)] \o [i \in DOMAIN b |-> ent(b[i], j)]
      log == FlattenSeq([j \in DOMAIN ticks |-> grp(j)])
  IN [e |-> "Play", calls |-> << <<0, 0, 0, 1, log>> >>, atend |-> IF song.eotOK THEN 1 ELSE 0, trunc |-> 0]

\* size in bytes of a track written from abstract events (independent of the models' own byte counting)
AbsVlqLen(v) == IF v < 128 THEN 1 ELSE IF v < 16384 THEN 2 ELSE IF v < 2097152 THEN 3 ELSE 4
AbsTrackLen(trk) ==
  SumSeq([i \in DOMAIN trk.ev |->
     LET x == trk.ev[i]  n == Len(x) IN
     AbsVlqLen(x[1]) + (1 - trk.rs[i]) +
     (IF x[2] = 255 THEN 1 + AbsVlqLen(n - 3) + (n - 3) ELSE IF x[2] >= 240 THEN AbsVlqLen(n - 2) + (n - 2) ELSE n - 2)])
SmfShapeFails(o) ==
  LET trk == o.tracks[1]  E == { i \in DOMAIN trk.ev : IsEot(trk.ev[i]) } IN
  Lbl(Len(o.tracks) = 1 /\ o.ntr = 1, "smf-track-count") \cup Lbl(trk.len = AbsTrackLen(trk), "smf-track-length") \cup
  Lbl(E = {Len(trk.ev)}, "smf-end-of-track") \cup Lbl(o.div \in 1..32767, "smf-division") \cup
  \* running status only for a channel status equal to the previous event's
  Lbl(\A i \in DOMAIN trk.rs : trk.rs[i] = 1 => (i > 1 /\ trk.ev[i][2] < 240 /\ trk.ev[i - 1][2] = trk.ev[i][2]), "smf-running-status")

---------------------------------------------------------------------------
(* MUS *)
MusJudgeScore(score, chans) ==
  LET bytes == MusBytes(score, chans, <<>>)
      o == Mus2Mid(bytes, 0)
  IN IF "unmodelled" \in DOMAIN o THEN [bad |-> {"model-unmodelled"}, known |-> {}]
     ELSE IF ~WellFormed(score) THEN [bad |-> {}, known |-> {}]           \* outside the quantifier of the property
     ELSE IF ~o.ok THEN [bad |-> {"model-rejects-wellformed"}, known |-> {}]
     ELSE LET s == MkMusSrc(score, bytes)
              f == MusPlayFails(PlayRec(AbsSong(o)), s) \cup SmfShapeFails(o) \cup Lbl(o.fmt = 0, "smf-format")
          IN [bad |-> f \ KnownLabels, known |-> f \cap KnownLabels]
MusJudge(s) == MusJudgeScore(MC!MusScore(s), 2)
\* alphabet 2: the whole controller / system-event table, wheel and range extremes, a three-digit delay
MusDl2 == IF MaxLen2 <= 2 THEN 16384 ELSE 14000            \* MusTickUs is exact in 32 bits below 42 949 ticks
MusShapes2(ch, dl) ==
  LET n == IF ch = 15 THEN 50 ELSE 127 IN
  [c \in 1..10 |-> [k |-> "ctl", ch |-> ch, c |-> c - 1, v |-> ((c - 1) * 11 + 17) % 128, dl |-> dl]] \o
  [c \in 1..5 |-> [k |-> "sys", ch |-> ch, c |-> c + 9, dl |-> dl]] \o
  << [k |-> "pitch", ch |-> ch, v |-> 0, dl |-> dl], [k |-> "pitch", ch |-> ch, v |-> 1, dl |-> dl], [k |-> "pitch", ch |-> ch, v |-> 128, dl |-> dl],
     [k |-> "pitch", ch |-> ch, v |-> 255, dl |-> dl], [k |-> "play", ch |-> ch, n |-> n, v |-> 127, dl |-> dl], [k |-> "play", ch |-> ch, n |-> 0, v |-> 1, dl |-> dl],
     [k |-> "play", ch |-> ch, n |-> n, v |-> -1, dl |-> dl], [k |-> "rel", ch |-> ch, n |-> n, dl |-> dl] >>
MusAlphabet2 == UNION { SeqToSet(MusShapes2(ch, dl)) : ch \in {14, 15}, dl \in {0, MusDl2} }
\* the full channel range (16 events, beyond MaxLen): the 16 channels in 8 stride orders, each with a note using the remembered volume
MusWideBad ==
  LET wide(st) == [i \in 1..16 |-> [k |-> "play", ch |-> (i * st) % 16, n |-> 40 + i, v |-> 30 + i, dl |-> i % 3]] \o
                  [i \in 1..16 |-> [k |-> "play", ch |-> (i * st) % 16, n |-> 41 + i, v |-> -1, dl |-> 1]] \o
                  << [k |-> "end", ch |-> 0, dl |-> 0] >>
  IN UNION { MusJudgeScore(wide(st), 15).bad : st \in {1, 3, 5, 7, 9, 11, 13, 15} }

(* XMI *)
XmiExtra == { <<dt, [k |-> "cc", ch |-> 0, n |-> 0, v |-> 127]>> : dt \in {0, 5} } \cup { <<0, [k |-> "cc", ch |-> 9, n |-> 0, v |-> 5]>> }
XmiSongT(s, us, eot) == [ev |-> << <<0, [k |-> "tempo", us |-> us]>> >> \o s, eot |-> eot]
\* alphabet 2: every channel-voice status, controller table corners, wheel extremes, 2- and 3-byte durations, interval split at 127/128
XmiShapes2(ch, dt) ==
  << <<dt, [k |-> "on", ch |-> ch, n |-> 127, v |-> 127, dur |-> 128]>>, <<dt, [k |-> "on", ch |-> ch, n |-> 0, v |-> 1, dur |-> 16384]>>,
     <<dt, [k |-> "cc", ch |-> ch, n |-> 0, v |-> 5]>>, <<dt, [k |-> "cc", ch |-> ch, n |-> 1, v |-> 0]>>, <<dt, [k |-> "cc", ch |-> ch, n |-> 32, v |-> 127]>>,
     <<dt, [k |-> "cc", ch |-> ch, n |-> 64, v |-> 127]>>, <<dt, [k |-> "cc", ch |-> ch, n |-> 121, v |-> 0]>>, <<dt, [k |-> "cc", ch |-> ch, n |-> 127, v |-> 1]>>,
     <<dt, [k |-> "nat", ch |-> ch, n |-> 60, v |-> 99]>>, <<dt, [k |-> "cat", ch |-> ch, v |-> 127]>>, <<dt, [k |-> "bend", ch |-> ch, v |-> 0]>>,
     <<dt, [k |-> "bend", ch |-> ch, v |-> 16383]>>, <<dt, [k |-> "pc", ch |-> ch, p |-> 127]>> >>
XmiAlphabet2 == UNION { SeqToSet(XmiShapes2(ch, dt)) : ch \in {1, 15}, dt \in {0, 127, 128} }
XmiJudgeFile(songs, which) ==
  LET f == [songs |-> songs]
      bytes == XmiBytes(f)
      o == Xmi2Mid(bytes)
  IN IF "unmodelled" \in DOMAIN o THEN [bad |-> {"model-unmodelled"}, known |-> {}]
     ELSE IF ~XmiWellFormed(f) THEN [bad |-> {}, known |-> {}]
     ELSE IF ~o.ok THEN [bad |-> {"model-rejects-wellformed"}, known |-> {}]
     ELSE IF Len(o.songs) # Len(songs) THEN [bad |-> {"xmi-songs-count"}, known |-> {}]
     ELSE LET s == MkXmiSrc(songs, bytes)
              f1(n) == XmiPlayFails(PlayRec(AbsSong(o.songs[n])), s, n - 1) \cup SmfShapeFails(o.songs[n]) \cup
                       Lbl(o.songs[n].fmt = (IF Len(songs) > 1 THEN 2 ELSE 0), "smf-format")
              ff == UNION { f1(n) : n \in which }
          IN [bad |-> ff \ KnownLabels, known |-> ff \cap KnownLabels]
\* the sequence alone, and as second sequence of a two-sequence file whose first one has another tempo, a TIMB chunk and an
\* odd-length EVNT chunk (padding): conversion of a sequence must not depend on its neighbours
XmiOther == [ev |-> << <<0, [k |-> "tempo", us |-> 250000]>>, <<3, [k |-> "pc", ch |-> 2, p |-> 9]>> >>, eot |-> 1, timb |-> << <<5, 0>>, <<7, 127>> >>]
XmiJudge(s, us, eot) ==
  LET a == XmiJudgeFile(<< XmiSongT(s, us, eot) >>, {1})
      b == IF Len(s) <= 1 THEN XmiJudgeFile(<< XmiOther, XmiSongT(s, us, eot) >>, {1, 2}) ELSE [bad |-> {}, known |-> {}]
  IN [bad |-> a.bad \cup b.bad, known |-> a.known \cup b.known]

---------------------------------------------------------------------------
Alphabet == IF Fmt = "mus" THEN (IF va = 1 THEN MC!MusAlphabet ELSE MusAlphabet2)
            ELSE (IF va = 1 THEN MC!XmiAlphabet \cup XmiExtra ELSE XmiAlphabet2)
Judge(s, t) == IF Fmt = "mus" THEN MusJudge(s) ELSE XmiJudge(s, t, IF va = 1 THEN 130 ELSE 16400)
MCInit == /\ sc = <<>> /\ tp \in (IF Fmt = "mus" THEN {0} ELSE Tempi) /\ va \in (IF MaxLen2 > 0 THEN {1, 2} ELSE {1})
          /\ LET j == Judge(<<>>, tp) IN bad = j.bad \cup (IF Fmt = "mus" /\ va = 1 THEN MusWideBad ELSE {}) /\ known = j.known
          /\ l = 1 /\ src = Src0 /\ sel = 0 /\ prev = Prev0 /\ fails = <<>> /\ cnt = Cnt0 /\ exec = 0 /\ drift = <<>>
MCNext == /\ Len(sc) < (IF va = 1 THEN MaxLen ELSE MaxLen2)
          /\ \E x \in Alphabet : /\ sc' = Append(sc, x)
                                 /\ LET j == Judge(Append(sc, x), tp) IN bad' = j.bad /\ known' = j.known
          /\ UNCHANGED <<tp, va, l, src, sel, prev, fails, cnt, exec, drift>>
MCSpec == MCInit /\ [][MCNext]_mvars
NoBad == bad = {}

---------------------------------------------------------------------------
(* witnesses, evaluated once at start-up *)
W1 == XmiJudge(<< <<5, [k |-> "cc", ch |-> 0, n |-> 0, v |-> 127]>> >>, 500000, 130)
W2 == XmiJudge(<< <<200, [k |-> "on", ch |-> 0, n |-> 60, v |-> 100, dur |-> 1]>> >>, 480000, 130)
W3 == XmiJudge(<< <<200, [k |-> "on", ch |-> 0, n |-> 60, v |-> 100, dur |-> 1]>> >>, 500000, 130)
\* controllers are data to the converter: 116/117 (FOR/NEXT) and 110..120 pass through, 114 -> 32 except on channel 9
CtlFile == [songs |-> << [ev |-> << <<0, [k |-> "cc", ch |-> 1, n |-> 116, v |-> 2]>>, <<4, [k |-> "cc", ch |-> 1, n |-> 117, v |-> 127]>>,
                                    <<0, [k |-> "cc", ch |-> 1, n |-> 114, v |-> 3]>>, <<0, [k |-> "cc", ch |-> 9, n |-> 114, v |-> 3]>>,
                                    <<0, [k |-> "cc", ch |-> 2, n |-> 110, v |-> 1]>> >>, eot |-> 2] >>]
W4 == Xmi2Mid(XmiBytes(CtlFile))
ASSUME Fmt = "xmi" =>
  /\ PrintT("KNOWN-WITNESS F16c (CC0 = 127 at tick 5, tempo 500000): " \o ToString(W1)) /\ W1 = [bad |-> {}, known |-> {"xmi-bank127"}]
  /\ PrintT("KNOWN-WITNESS F16d (tempo 480000, note at tick 200): " \o ToString(W2)) /\ W2 = [bad |-> {}, known |-> {"xmi-tempo-rounding"}]
  /\ W3 = [bad |-> {}, known |-> {}]
  /\ PrintT("WITNESS AIL controllers 116 117 114 114@ch9 110, division " \o ToString(W4.songs[1].div) \o ": " \o ToString(W4.songs[1].tracks[1].ev))
  /\ W4.songs[1].div = 60          \* no tempo meta: (500000 * 3) / 25000
  /\ W4.songs[1].tracks[1].ev = << <<0, 177, 116, 2>>, <<12, 177, 117, 127>>, <<0, 177, 32, 3>>, <<0, 185, 114, 3>>, <<0, 178, 110, 1>>, <<6, 255, 47>> >>
  /\ W4.songs[1].tracks[1].rs = <<0, 1, 1, 0, 0, 0>>
\* the delay limit of mus2mid_writevarlen: 2^28 - 1 ticks convert, 2^28 ticks (a five-digit delay) crash the converter as it stands
\* (label mus-delay-overflow-crash of the check); with the repair switch of Mus2Mid the score is rejected instead
DelayScore(d) == << [k |-> "rel", ch |-> 0, n |-> 60, dl |-> d], [k |-> "end", ch |-> 0, dl |-> 0] >>
W5(d) == Mus2Mid(MusBytes(DelayScore(d), 1, <<>>), 0)
ASSUME Fmt = "mus" =>
  /\ PrintT("WITNESS MUS delay 2^28 - 1: " \o ToString(W5(268435455).tracks[1].ev) \o "; delay 2^28: " \o ToString(W5(268435456)))
  /\ W5(268435455).ok /\ W5(268435455).tracks[1].ev[5] = <<268435455, 255, 47>>
  /\ ~W5(268435456).ok /\ (("crash" \in DOMAIN W5(268435456)) <=> ~M2RepairDelayLimit)
=============================================================================
