SPECIFICATION Spec
CONSTANTS
  MaxDepth = 7
  InitCap = 0
  EmitDepth = 0
INVARIANT NoBad
CONSTRAINT DepthBound
VIEW View
CHECK_DEADLOCK FALSE
