----------------------------- MODULE SynthProps -----------------------------
(* Properties C04, C05, C06, C12, C19 of the real-time synthesizer, written ONLY over the
   observable projection (the state snapshot taken after each API call, the abstract chip
   operations of the register tap, call arguments and return values).  The same formulas are
   evaluated by TLC on states of the model (SynthMC) and on states recorded from the real
   library (SynthTrace).

   Snapshot shape (see harness/vh.hpp):
     s.nc          number of chip channels
     s.ch[c+1]     [k: keyed at the chip, koff: ms, ri, u: <<[m, n, s, f, kon, vd, id]>>]
     s.mc[i]       [c: MIDI channel number, patch, msb, lsb, ..., sus, glc, exc,
                    notes: <<[n, v, tone, gl, ttl, ext, perc, blank, ib, ii, mi, ph: <<[c, id]>>]>>]
     s.mode, s.master, s.dev, s.alloc, s.arp
   Bank layout bl: <<[bk, ins: <<[i, id, kon, koff, drum, blank, noff, veloff, ...]>>]>>      *)
EXTENDS Common, TLC

ModeGS == 1
ModeXG == 2
PercTag == 32768

---------------------------------------------------------------------------
(* C04 -- bookkeeping invariant.  C04Fails(s) is the set of violated conjunct labels. *)

McOf(s, chn) == FirstIdx(s.mc, LAMBDA r : r.c = chn)
UsersOf(s, c) == IF c + 1 \in DOMAIN s.ch THEN s.ch[c + 1].u ELSE <<>>
NumUsersAt(s, c, m, n) == Count(UsersOf(s, c), LAMBDA u : u.m = m /\ u.n = n)

C04_1(s) == \A mi \in DOMAIN s.mc : \A ni \in DOMAIN s.mc[mi].notes :
              LET nt == s.mc[mi].notes[ni] IN
              /\ (~nt.blank => nt.ph # <<>>)
              /\ \A pi \in DOMAIN nt.ph :
                   /\ nt.ph[pi].c < s.nc
                   /\ nt.ph[pi].c + 1 \in DOMAIN s.ch
                   /\ NumUsersAt(s, nt.ph[pi].c, s.mc[mi].c, nt.n) = 1
C04_2(s) == \A ci \in DOMAIN s.ch : \A ui \in DOMAIN s.ch[ci].u :
              LET u == s.ch[ci].u[ui]  mi == McOf(s, u.m) IN
              u.s = 0 =>
                /\ mi # 0
                /\ \E ni \in DOMAIN s.mc[mi].notes :
                     /\ s.mc[mi].notes[ni].n = u.n
                     /\ \E pi \in DOMAIN s.mc[mi].notes[ni].ph : s.mc[mi].notes[ni].ph[pi].c = ci - 1
C04_3(s) == /\ \A mi \in DOMAIN s.mc : NoDup(s.mc[mi].notes, LAMBDA nt : nt.n)
            /\ \A ci \in DOMAIN s.ch : NoDup(s.ch[ci].u, LAMBDA u : <<u.m, u.n>>)
            /\ \A mi \in DOMAIN s.mc : \A ni \in DOMAIN s.mc[mi].notes :
                 NoDup(s.mc[mi].notes[ni].ph, LAMBDA p : p.c)
C04_4(s) == \A mi \in DOMAIN s.mc :
              /\ s.mc[mi].glc = Count(s.mc[mi].notes, LAMBDA nt : nt.gl)
              /\ s.mc[mi].exc = Count(s.mc[mi].notes, LAMBDA nt : nt.ttl)
C04_5(s) == \A mi \in DOMAIN s.mc : \A ni \in DOMAIN s.mc[mi].notes :
              LET nt == s.mc[mi].notes[ni] IN ~nt.blank => (nt.ib >= 0 /\ nt.ii \in 0..127)
C04_6(s) == \A ci \in DOMAIN s.ch : (ci - 1 < s.nc) => (s.ch[ci].k <=> (s.ch[ci].u # <<>>))
C04_7(s) == Len(s.ch) = s.nc

C04Fails(s) == {"c1" : x \in IF C04_1(s) THEN {} ELSE {1}} \cup
               {"c2" : x \in IF C04_2(s) THEN {} ELSE {1}} \cup
               {"c3" : x \in IF C04_3(s) THEN {} ELSE {1}} \cup
               {"c4" : x \in IF C04_4(s) THEN {} ELSE {1}} \cup
               {"c5" : x \in IF C04_5(s) THEN {} ELSE {1}} \cup
               {"c6" : x \in IF C04_6(s) THEN {} ELSE {1}} \cup
               {"c7" : x \in IF C04_7(s) THEN {} ELSE {1}}
BookkeepingOK(s) == C04Fails(s) = {}

---------------------------------------------------------------------------
(* Documented instrument selection (C12) -- independent of the allocator model. *)

BlankIns == [i |-> -1, id |-> 0, kon |-> 0, koff |-> 0, drum |-> 0, blank |-> TRUE, noff |-> 0, veloff |-> 0]
BankIdx(bl, key) == FirstIdx(bl, LAMBDA b : b.bk = key)
InsAt(bl, key, i) ==
  LET b == BankIdx(bl, key) IN
  IF b = 0 THEN BlankIns
  ELSE LET k == FirstIdx(bl[b].ins, LAMBDA r : r.i = i) IN IF k = 0 THEN BlankIns ELSE bl[b].ins[k]

\* r: the reference's own view of a MIDI channel [chn, patch, msb, lsb, perc]
DocBankKey(mode, r) ==
  IF r.perc THEN PercTag + (IF BitHas(mode, ModeXG) /\ r.msb = 126 THEN r.patch + 128 ELSE r.patch)
  ELSE IF BitHas(mode, ModeGS) THEN r.msb * 256 ELSE r.msb * 256 + r.lsb
DocIndex(r, key) == IF r.perc THEN key ELSE r.patch
\* first non-blank of: exact bank, bank with LSB cleared, bank 0 (of the same kind)
Doc(bl, mode, r, key) ==
  LET bk  == DocBankKey(mode, r)
      idx == DocIndex(r, key)
      k2  == bk - (bk % 128)
      k3  == IF r.perc THEN PercTag ELSE 0
      i1  == InsAt(bl, bk, idx)  i2 == InsAt(bl, k2, idx)  i3 == InsAt(bl, k3, idx)
  IN IF ~i1.blank THEN i1 ELSE IF ~i2.blank THEN i2 ELSE i3
DocTone(ins, key) == IF ins.drum = 0 THEN key ELSE IF ins.drum >= 128 THEN ins.drum - 128 ELSE ins.drum

---------------------------------------------------------------------------
(* Reference history h (C05, C12, C19): updated only by the MIDI rules of the property
   statements, never by looking at the allocator.
     h.ch[chn]  [patch, msb, lsb, perc, pedal, sos]   the reference's own controller view
     h.down     pairs <<chn, key>> whose key is down and that sound
     h.rel      pairs whose key is up but that are still held (by pedal and/or sostenuto)
     h.hp       subset of rel held by the sustain pedal
     h.cap      pairs captured by sostenuto (CC66 >= 64 while the key was down)
     h.life     percussion pairs inside their 30 ms minimum life: <<[p, left(us), pending]>>
     h.keys     physical keys down (for the no-stuck-notes clause)
     h.quiet    us of audio generated since everything was released                     *)

DrumLifeUs == 30000
RefChan0 == [patch |-> 0, msb |-> 0, lsb |-> 0, perc |-> FALSE, pedal |-> FALSE, sos |-> FALSE]
RefInit(chans, bl, nc, dev) ==
  [ch |-> [c \in chans |-> RefChan0], mode |-> ModeXG, dev |-> dev, master |-> 127,
   down |-> {}, rel |-> {}, hp |-> {}, cap |-> {}, life |-> <<>>, keys |-> {},
   bl |-> bl, nc |-> nc, polyOK |-> TRUE, quiet |-> 0, extra |-> 0]

Held(h) == h.down \cup h.rel
IsPercChan(h, chn) == (chn % 16 = 9) \/ h.ch[chn].perc
RefView(h, chn) == [chn |-> chn, patch |-> h.ch[chn].patch, msb |-> h.ch[chn].msb, lsb |-> h.ch[chn].lsb,
                    perc |-> IsPercChan(h, chn)]
LifeIdx(h, p) == FirstIdx(h.life, LAMBDA r : r.p = p)
PairsOf(S, chn) == { p \in S : p[1] = chn }
Known(h, chn) == chn \in DOMAIN h.ch

\* a released pair stays only while the pedal or the sostenuto capture holds it
FilterRel(h) == [h EXCEPT !.rel = { p \in @ : p \in h.hp \/ p \in h.cap }]

\* key of pair p goes up now
Release(h, p) ==
  IF p \notin h.down THEN h
  ELSE LET li == LifeIdx(h, p)
           byPedal == h.ch[p[1]].pedal
           byCap == p \in h.cap
       IN [h EXCEPT !.down = @ \ {p},
                    \* a pair re-struck while an earlier instance is still held occupies one more voice
                    !.extra = IF (byPedal \/ byCap) /\ p \in h.rel THEN @ + 1 ELSE @,
                    !.rel  = IF byPedal \/ byCap THEN @ \cup {p} ELSE @,
                    !.hp   = IF byPedal THEN @ \cup {p} ELSE @,
                    !.life = IF li = 0 THEN @ ELSE RemoveAt(@, li)]
\* note-off that honours the percussion minimum life
SoftRelease(h, p) ==
  LET li == LifeIdx(h, p) IN
  IF p \in h.down /\ li # 0 /\ h.life[li].left > 0
  THEN [h EXCEPT !.life[li].pending = TRUE]
  ELSE Release(h, p)
RECURSIVE ReleaseAll(_, _, _)
ReleaseAll(h, ps, soft) ==
  IF ps = {} THEN h
  ELSE LET p == CHOOSE q \in ps : TRUE IN
       ReleaseAll(IF soft THEN SoftRelease(h, p) ELSE Release(h, p), ps \ {p}, soft)

AllEnd(h) == [h EXCEPT !.down = {}, !.rel = {}, !.hp = {}, !.cap = {}, !.life = <<>>, !.keys = {}]
RefResetState(h) ==
  AllEnd([h EXCEPT !.ch = [c \in DOMAIN h.ch |-> [h.ch[c] EXCEPT !.pedal = FALSE, !.sos = FALSE,
                                                  !.perc = IF BitHas(h.mode, ModeGS) THEN FALSE ELSE @]],
                   !.master = 127])

RECURSIVE AgeLife(_, _, _)
AgeLife(h, i, us) ==
  IF i > Len(h.life) THEN h
  ELSE LET r == h.life[i]  left == r.left - us IN
       IF left <= 0
       THEN IF r.pending THEN AgeLife(Release(h, r.p), i, us)
            ELSE AgeLife([h EXCEPT !.life = RemoveAt(@, i)], i, us)
       ELSE AgeLife([h EXCEPT !.life[i].left = left], i + 1, us)

---------------------------------------------------------------------------
(* Documented SysEx semantics (C19), on byte sequences.  SysExDoc returns
   [valid, kind, a, b]: kind in {"mode", "master", "drum"} *)
Invalid == [valid |-> FALSE, kind |-> "none", a |-> 0, b |-> 0]
RolandSum(bs) == (128 - (SumSeq(bs) % 128)) % 128
AllSeven(bs) == \A i \in DOMAIN bs : bs[i] < 128
GsDrumMap == <<9, 0, 1, 2, 3, 4, 5, 6, 7, 8, 10, 11, 12, 13, 14, 15>>
SysExDoc(m, dev) ==
  LET n == Len(m) IN
  IF n < 5 \/ m[1] # 240 \/ m[n] # 247 \/ ~AllSeven(SubSeq(m, 2, n - 1)) THEN Invalid
  ELSE LET man == m[2]  d == m[3]  body == SubSeq(m, 4, n - 1) IN
    CASE man \in {126, 127} ->
           IF ~(d = 127 \/ d = dev) THEN Invalid
           ELSE IF man = 126 /\ body = <<9, 1>> THEN [valid |-> TRUE, kind |-> "mode", a |-> 0, b |-> 0]
           ELSE IF man = 126 /\ body = <<9, 2>> THEN [valid |-> TRUE, kind |-> "mode", a |-> ModeXG, b |-> 0]
           ELSE IF man = 127 /\ Len(body) = 4 /\ body[1] = 4 /\ body[2] = 1
                THEN [valid |-> TRUE, kind |-> "master", a |-> body[4], b |-> 0]
           ELSE Invalid
      [] man = 65 ->
           IF ~(d = 127 \/ d = 16 + dev) THEN Invalid
           ELSE IF Len(body) # 7 \/ body[1] # 66 \/ body[2] # 18 THEN Invalid
           ELSE IF RolandSum(SubSeq(body, 3, 6)) # body[7] THEN Invalid
           ELSE IF (body[3] = 64 \/ body[3] = 0) /\ body[4] = 0 /\ body[5] = 127
                THEN [valid |-> TRUE, kind |-> "mode", a |-> ModeGS, b |-> 0]
           ELSE IF body[3] = 64 /\ body[4] \in 16..31 /\ body[5] = 21
                THEN [valid |-> TRUE, kind |-> "drum", a |-> GsDrumMap[body[4] - 16 + 1], b |-> body[6]]
           ELSE Invalid
      [] man = 67 ->
           IF ~(d = 127 \/ d = 16 + dev) THEN Invalid
           ELSE IF body = <<76, 0, 0, 126, 0>> \/ (Len(body) = 5 /\ SubSeq(body, 1, 4) = <<76, 0, 0, 126>>)
                THEN [valid |-> TRUE, kind |-> "mode", a |-> ModeXG, b |-> 0]
           ELSE Invalid
      [] OTHER -> Invalid

RefSysEx(h, m) ==
  LET d == SysExDoc(m, h.dev) IN
  IF ~d.valid THEN h
  ELSE CASE d.kind = "mode"   -> RefResetState([h EXCEPT !.mode = d.a])
         [] d.kind = "master" -> [h EXCEPT !.master = d.a]
         [] d.kind = "drum"   -> IF Known(h, d.a) THEN [h EXCEPT !.ch[d.a].perc = (d.b = 1 \/ d.b = 2)] ELSE h
         [] OTHER -> h

---------------------------------------------------------------------------
(* One step of the reference.  ev is the call record (as logged / as chosen by the model). *)
RefCC(h, chn, n, v) ==
  CASE n = 0  -> [h EXCEPT !.ch[chn].msb = v,
                           !.ch[chn].perc = IF BitHas(h.mode, ModeGS) THEN @ ELSE (v = 126 \/ v = 127)]
    [] n = 32 -> [h EXCEPT !.ch[chn].lsb = v,
                           !.ch[chn].perc = IF BitHas(h.mode, ModeGS) THEN @ ELSE (h.ch[chn].msb = 126 \/ h.ch[chn].msb = 127)]
    [] n = 64 -> IF v >= 64 THEN [h EXCEPT !.ch[chn].pedal = TRUE]
                 ELSE FilterRel([h EXCEPT !.ch[chn].pedal = FALSE, !.hp = @ \ PairsOf(@, chn)])
    [] n = 66 -> IF v >= 64 THEN [h EXCEPT !.ch[chn].sos = TRUE, !.cap = @ \cup PairsOf(h.down, chn)]
                 ELSE FilterRel([h EXCEPT !.ch[chn].sos = FALSE, !.cap = @ \ PairsOf(@, chn)])
    [] n = 121 -> FilterRel([h EXCEPT !.ch[chn].pedal = FALSE, !.ch[chn].sos = FALSE,
                                      !.hp = @ \ PairsOf(@, chn), !.cap = @ \ PairsOf(@, chn)])
    [] n \in {120, 123} -> LET h1 == ReleaseAll(h, PairsOf(h.down, chn), FALSE)
                           IN [h1 EXCEPT !.keys = @ \ PairsOf(@, chn)]
    [] OTHER -> h

RefNoteOn(h, chn, key, vel) ==
  LET p == <<chn, key>> IN
  IF vel = 0 THEN [SoftRelease(h, p) EXCEPT !.keys = @ \ {p}]
  ELSE LET h1  == Release(h, p)
           ins == Doc(h.bl, h.mode, RefView(h, chn), key)
       IN IF ins.blank THEN [h1 EXCEPT !.keys = @ \cup {p}]
          ELSE [h1 EXCEPT !.keys = @ \cup {p}, !.down = @ \cup {p},
                          !.life = IF IsPercChan(h, chn)
                                   THEN Append(@, [p |-> p, left |-> DrumLifeUs, pending |-> FALSE]) ELSE @]

SetInsBl(bl, key, idx, rec) ==
  LET b == BankIdx(bl, key) IN
  IF b = 0 THEN Append(bl, [bk |-> key, ins |-> <<rec>>])
  ELSE LET k == FirstIdx(bl[b].ins, LAMBDA r : r.i = idx) IN
       IF k = 0 THEN [bl EXCEPT ![b].ins = Append(@, rec)] ELSE [bl EXCEPT ![b].ins[k] = rec]

RefStep0(h, ev) ==
  LET e == ev.e IN
  CASE e = "NoteOn"  -> IF Known(h, ev.ch) THEN RefNoteOn(h, ev.ch, Min(ev.k, 127), ev.v) ELSE h
    [] e = "NoteOff" -> IF Known(h, ev.ch) THEN [SoftRelease(h, <<ev.ch, ev.k>>) EXCEPT !.keys = @ \ {<<ev.ch, ev.k>>}] ELSE h
    [] e = "CC"      -> IF Known(h, ev.ch) THEN RefCC(h, ev.ch, ev.n, ev.v) ELSE h
    [] e = "Patch"   -> IF Known(h, ev.ch) THEN [h EXCEPT !.ch[ev.ch].patch = ev.p] ELSE h
    [] e = "BankMSB" -> IF Known(h, ev.ch) THEN [h EXCEPT !.ch[ev.ch].msb = ev.v] ELSE h
    [] e = "BankLSB" -> IF Known(h, ev.ch) THEN [h EXCEPT !.ch[ev.ch].lsb = ev.v] ELSE h
    [] e = "Bank"    -> IF Known(h, ev.ch) THEN [h EXCEPT !.ch[ev.ch].lsb = ev.v % 256, !.ch[ev.ch].msb = (ev.v \div 256) % 256] ELSE h
    [] e = "SysEx"   -> RefSysEx(h, ev.b)
    [] e = "Panic"   -> LET h1 == ReleaseAll(h, h.down, TRUE)
                        IN [h1 EXCEPT !.rel = {}, !.hp = {}, !.cap = {}, !.keys = {}]
    [] e = "ResetState" -> RefResetState(h)
    [] e = "Gen"     -> AgeLife(h, 1, ev.us)
    [] e = "SetDevId" -> IF ev.v \in 0..15 THEN [h EXCEPT !.dev = ev.v] ELSE h
    [] e = "Reset"   -> AllEnd([h EXCEPT !.ch = [c \in DOMAIN h.ch |-> RefChan0], !.mode = ModeXG, !.master = 127])
    [] e \in {"SetNumChips", "SwitchEmu", "SetRunAtPcm"} -> IF ev.r = 0 THEN AllEnd(h) ELSE h
    [] e = "SetChipType" -> AllEnd(h)
    [] e = "OpenBank" -> IF ev.r = 0 THEN AllEnd([h EXCEPT !.bl = ev.bl]) ELSE h
    [] e = "SetIns"  -> IF ev.r = 0 THEN [h EXCEPT !.bl = SetInsBl(@, ev.msb * 256 + ev.lsb + (IF ev.p = 1 THEN PercTag ELSE 0), ev.i, ev.insrec)] ELSE h
    [] OTHER -> h

AllReleased(h) == h.keys = {} /\ \A c \in DOMAIN h.ch : ~h.ch[c].pedal /\ ~h.ch[c].sos

\* nc is the observable number of chip channels after the call
RefStep(h, ev, nc) ==
  LET h1 == RefStep0(h, ev)
      rebuild == ev.e \in {"SetNumChips", "SwitchEmu", "SetRunAtPcm", "SetChipType", "OpenBank", "Reset"}
      ex == IF h1.rel = {} THEN 0 ELSE h1.extra
  IN [h1 EXCEPT !.nc = nc, !.extra = ex,
                !.polyOK = (IF rebuild THEN TRUE ELSE h.polyOK) /\ Cardinality(h1.down) + Cardinality(h1.rel) + ex <= nc - 1,
                !.quiet = IF ev.e = "Gen" /\ AllReleased(h1) THEN Min(h.quiet + ev.us, 100000000) ELSE 0]

---------------------------------------------------------------------------
(* Monitors over (reference, snapshot) *)
Sounding(s) == { <<s.ch[ci].u[ui].m, s.ch[ci].u[ui].n>> : <<ci, ui>> \in
                 { x \in (DOMAIN s.ch) \X (0..128) : x[2] \in DOMAIN s.ch[x[1]].u /\ s.ch[x[1]].k } }
AnyKeyed(s) == \E ci \in DOMAIN s.ch : ci - 1 < s.nc /\ s.ch[ci].k

\* The per-channel counter of pending minimum-life countdowns (extended_note_count) gates TickIterators(): the postponed
\* key-off of a released percussion note is only performed while the counter of its MIDI channel is non-zero.  A counter
\* that differs from the number of notes whose life time is still running is therefore a direct cause of stuck (or
\* early cut) drum notes and is judged as part of C05 on every snapshot (the hooks expose it as mc[i].exc).
ExtCountOK(s) == \A mi \in DOMAIN s.mc : s.mc[mi].exc = Count(s.mc[mi].notes, LAMBDA nt : nt.ttl)
\* a note waits for its postponed key-off (ext) only while its life time is running (otherwise nobody will ever perform it)
ExtPendingOK(s) == \A mi \in DOMAIN s.mc : \A ni \in DOMAIN s.mc[mi].notes : s.mc[mi].notes[ni].ext => s.mc[mi].notes[ni].ttl

C05Fails(h, s) ==
  {"sounding" : x \in IF h.polyOK /\ Sounding(s) # Held(h) THEN {1} ELSE {}} \cup
  {"stuck" : x \in IF h.quiet >= 30010 /\ AnyKeyed(s) THEN {1} ELSE {}} \cup
  {"extcount" : x \in IF ExtCountOK(s) THEN {} ELSE {1}} \cup
  {"extpending" : x \in IF ExtPendingOK(s) THEN {} ELSE {1}}

\* C06: pre/post snapshots around an accepted or rejected NoteOn of pair p with a sounding instrument
IdleChans(s) == { ci \in DOMAIN s.ch : ci - 1 < s.nc /\ s.ch[ci].u = <<>> }
LocsOn(s, ci) == { <<s.ch[ci].u[ui].m, s.ch[ci].u[ui].n>> : ui \in DOMAIN s.ch[ci].u }
\* users of chip channel ci whose key is still down: an active note of that MIDI channel occupies ci
NoteOccupies(s, m, n, c) ==
  LET mi == McOf(s, m) IN
  mi # 0 /\ \E ni \in DOMAIN s.mc[mi].notes :
     s.mc[mi].notes[ni].n = n /\ \E pi \in DOMAIN s.mc[mi].notes[ni].ph : s.mc[mi].notes[ni].ph[pi].c = c
KeyDownLocs(s, ci) == { <<s.ch[ci].u[ui].m, s.ch[ci].u[ui].n>> : ui \in
                        { j \in DOMAIN s.ch[ci].u : NoteOccupies(s, s.ch[ci].u[j].m, s.ch[ci].u[j].n, ci - 1) } }
AllLocs(s) == UNION { LocsOn(s, ci) : ci \in DOMAIN s.ch }
PlacedOn(s, p) == { ci \in DOMAIN s.ch : p \in KeyDownLocs(s, ci) }
C06Fails(pre, post, p, r, blank) ==
  IF blank THEN {}
  ELSE LET idle == IdleChans(pre) IN
    IF idle # {}
    THEN {"rejected" : x \in IF r = 1 THEN {} ELSE {1}} \cup
         {"displaced" : x \in IF \A ci \in DOMAIN pre.ch : (LocsOn(pre, ci) \ {p}) \subseteq LocsOn(post, ci) THEN {} ELSE {1}} \cup
         {"notidle" : x \in IF \A ci \in PlacedOn(post, p) : (LocsOn(pre, ci) \ {p}) = {} THEN {} ELSE {1}}
    ELSE IF \E ci \in DOMAIN pre.ch : Len(pre.ch[ci].u) = 1 /\ KeyDownLocs(pre, ci) = {}
         THEN {"keydown-evicted" : x \in
                 IF \A ci \in DOMAIN pre.ch : (KeyDownLocs(pre, ci) \ {p}) \subseteq AllLocs(post) THEN {} ELSE {1}}
         ELSE {}

\* C12: instrument actually loaded by a NoteOn.  w: chip operations of the call
PatchIds(w) == { w[i].a : i \in { j \in DOMAIN w : w[j].o = "patch" } }
HasKon(w) == \E i \in DOMAIN w : w[i].o = "kon"
C12Fails(h, ev, post) ==
  LET chn == ev.ch  key == Min(ev.k, 127)
      ins == Doc(h.bl, h.mode, RefView(h, chn), key)
      mi  == McOf(post, chn)
      ni  == IF mi = 0 THEN 0 ELSE FirstIdx(post.mc[mi].notes, LAMBDA nt : nt.n = key)
  IN IF ev.v = 0 THEN {}
     ELSE IF ins.blank
     THEN {"blank-accepted" : x \in IF ev.r = 0 /\ ~HasKon(ev.w) /\ PatchIds(ev.w) = {} THEN {} ELSE {1}}
     ELSE {"rejected" : x \in IF ev.r = 1 THEN {} ELSE {1}} \cup
          {"wrong-patch" : x \in IF PatchIds(ev.w) = {ins.id} THEN {} ELSE {1}} \cup
          {"no-keyon" : x \in IF HasKon(ev.w) THEN {} ELSE {1}} \cup
          {"tone" : x \in IF ni # 0 /\ post.mc[mi].notes[ni].tone = DocTone(ins, key) THEN {} ELSE {1}}

\* C19: effect of a SysEx call.  pre/post snapshots, h = reference BEFORE the call
CtlDefault(m) == m.expr = 127 /\ m.pan = 64 /\ m.bend = 0 /\ ~m.sus /\ ~m.soft /\ m.vib = 0 /\ m.at = 0
                 /\ m.bright = 127 /\ m.porta = 0 /\ ~m.portaEn /\ m.lrpn = 0 /\ m.mrpn = 0 /\ ~m.nrpn /\ m.notes = <<>>
C19Fails(h, ev, pre, post) ==
  LET d == SysExDoc(ev.b, h.dev)  h1 == RefSysEx(h, ev.b) IN
  IF ~d.valid
  THEN {"accepted-invalid" : x \in IF ev.r = 0 THEN {} ELSE {1}} \cup
       {"state-changed" : x \in IF post = pre /\ ev.w = <<>> THEN {} ELSE {1}}
  ELSE {"rejected-valid" : x \in IF ev.r = 1 THEN {} ELSE {1}} \cup
       {"mode" : x \in IF post.mode = h1.mode THEN {} ELSE {1}} \cup
       {"master" : x \in IF post.master = h1.master THEN {} ELSE {1}} \cup
       {"drumpart" : x \in IF \A mi \in DOMAIN post.mc : Known(h1, post.mc[mi].c) => post.mc[mi].xgp = h1.ch[post.mc[mi].c].perc THEN {} ELSE {1}} \cup
       {"ctl-reset" : x \in IF d.kind = "mode" => \A mi \in DOMAIN post.mc : CtlDefault(post.mc[mi]) THEN {} ELSE {1}} \cup
       {"other-state" : x \in IF d.kind = "drum" => [post EXCEPT !.mc = <<>>] = [pre EXCEPT !.mc = <<>>] THEN {} ELSE {1}}
=============================================================================
