------------------------------- MODULE XmiRef -------------------------------
(* Reference interpreter of the AIL XMIDI (XMI) format (oracle of the XMI clause of C17), written from the
   format definition (Miles Sound System "XMIDI" IFF description), NOT from src/cvt_xmi2mid.hpp.

   Abstract file:  [songs |-> << [ev |-> << <<dt, e>>, ... >>, eot |-> dt, timb |-> << <<patch, bank>>, ... >> (optional)] , ... >>]
   dt = interval in ticks (1/120 s) that PRECEDES the event; events:
     [k |-> "on", ch, n, v, dur]   note with its duration in ticks (the note-off is implied at tick + dur)
     [k |-> "cc", ch, n, v]  [k |-> "pc", ch, p]  [k |-> "bend", ch, v (14 bit)]  [k |-> "cat", ch, v]  [k |-> "nat", ch, n, v]
     [k |-> "tempo", us]           FF 51 meta; XMIDI playback runs at a fixed 120 Hz quantisation rate whatever its value
   Reference item = [tick, key |-> <<type, channel, data>>] with the release velocity left open (note-off data = <<key>>).   *)
EXTENDS Common, TLC

XmiTickUs3(k) == k * 25000               \* 3 x microseconds of tick k at 120 Hz (k < 85899 for 32-bit integers)

RECURSIVE XTick(_, _)
XTick(ev, i) == IF i = 0 THEN 0 ELSE XTick(ev, i - 1) + ev[i][1]
XEndTick(sg) == XTick(sg.ev, Len(sg.ev)) + sg.eot
IsB7(x) == x \in 0..127
XEvOK(e) ==
  CASE e.k = "on"    -> e.ch \in 0..15 /\ IsB7(e.n) /\ e.v \in 1..127 /\ e.dur >= 1
    [] e.k = "cc"    -> e.ch \in 0..15 /\ IsB7(e.n) /\ IsB7(e.v) /\ e.n \notin 112..120      \* 112..120 are AIL sequencer controls with a meaning of their own (for/next loops, callbacks, ...);
                                                                                            \* 110 / 111 (channel lock / protect) are passed on as plain controllers
    [] e.k = "pc"    -> e.ch \in 0..15 /\ IsB7(e.p)
    [] e.k = "bend"  -> e.ch \in 0..15 /\ e.v \in 0..16383
    [] e.k = "cat"   -> e.ch \in 0..15 /\ IsB7(e.v)
    [] e.k = "nat"   -> e.ch \in 0..15 /\ IsB7(e.n) /\ IsB7(e.v)
    [] e.k = "tempo" -> e.us \in 1..16777215
    [] OTHER -> FALSE
SongOK(sg) ==
  /\ sg.eot >= 0 /\ \A i \in DOMAIN sg.ev : sg.ev[i][1] >= 0 /\ XEvOK(sg.ev[i][2])
  \* every note has ended when the sequence ends; tempo only at time 0
  /\ \A i \in DOMAIN sg.ev : sg.ev[i][2].k = "on" => XTick(sg.ev, i) + sg.ev[i][2].dur <= XEndTick(sg)
  /\ \A i \in DOMAIN sg.ev : sg.ev[i][2].k = "tempo" => XTick(sg.ev, i) = 0
XmiWellFormed(f) == Len(f.songs) >= 1 /\ \A s \in DOMAIN f.songs : SongOK(f.songs[s])
CarriesTempo(sg) == \E i \in DOMAIN sg.ev : sg.ev[i][2].k = "tempo" /\ XTick(sg.ev, i) = 0

TempoUs(sg) == IF CarriesTempo(sg) THEN sg.ev[CHOOSE i \in DOMAIN sg.ev : sg.ev[i][2].k = "tempo"][2].us ELSE 0

XKey(e) ==
  CASE e.k = "on"   -> <<9, e.ch, <<e.n, e.v>>>>
    [] e.k = "cc"   -> <<11, e.ch, <<e.n, e.v>>>>
    [] e.k = "pc"   -> <<12, e.ch, <<e.p>>>>
    [] e.k = "bend" -> <<14, e.ch, <<e.v % 128, e.v \div 128>>>>
    [] e.k = "cat"  -> <<13, e.ch, <<e.v>>>>
    [] e.k = "nat"  -> <<10, e.ch, <<e.n, e.v>>>>
    [] OTHER -> <<0, 0, <<>>>>
\* the events a sequence defines: every channel event at its tick, plus the implied note-off of every note at tick + duration
XmiItems(sg) ==
  LET ev == sg.ev
      chan == { i \in DOMAIN ev : ev[i][2].k # "tempo" }
      ons  == { i \in DOMAIN ev : ev[i][2].k = "on" }
      direct == [i \in DOMAIN ev |-> IF i \in chan THEN << [tick |-> XTick(ev, i), key |-> XKey(ev[i][2]), src |-> i, syn |-> FALSE] >> ELSE <<>>]
      offs   == [i \in DOMAIN ev |-> IF i \in ons THEN << [tick |-> XTick(ev, i) + ev[i][2].dur, key |-> <<8, ev[i][2].ch, <<ev[i][2].n>>>>, src |-> i, syn |-> TRUE] >> ELSE <<>>]
  IN FlattenSeq(direct) \o FlattenSeq(offs)

(* ---- the player session: several music files opened one after the other on ONE player ----
   What is loaded is the LAST file handed to the player, if it was accepted - never anything of an earlier file.  The player
   keeps one number besides the file: the song selection (opn2_selectSongNum), which outlives the files.
     kind, ok, n   the last file: its format, whether it was accepted, its number of sequences (XMI; other formats: 1)
     req           the number of the last selection request (0 when there was none)
     kept          the readings of "the selected song" the interface leaves open: a request that lies outside the range of a
                   file is answered with that file's nearest song; whether a LATER file is then entered with the request or
                   with the answered number is not defined (header: "will be started from the selected number") - both are
                   kept.  A request that is in range for every file it meets has exactly one reading.
   A file the formats do not define (cut short, overwritten: kind "undefined") may be accepted or rejected; nothing is said
   about its playback, only the song count m the player reports afterwards is used to keep the readings complete.            *)
Sess0 == [kind |-> "none", ok |-> FALSE, n |-> 0, req |-> 0, kept |-> {0}, um |-> 0]
ClampAll(S, n) == { Clamp(c, 0, n - 1) : c \in S }
SessXmi(S) == S.ok /\ S.kind = "xmi"
\* (after a file the formats do not define that may have listed um >= 1 songs, the library may or may not hold that list: a
\*  request made then may have been clamped against it)
SessSelect(S, k) == [S EXCEPT !.req = k, !.kept = IF SessXmi(S) THEN {Clamp(k, 0, S.n - 1)}
                                                  ELSE IF S.kind = "undefined" /\ S.um >= 1 THEN {k, Clamp(k, 0, S.um - 1)} ELSE {k}]
SessLoad(S, kind, n, ok) == [S EXCEPT !.kind = kind, !.ok = ok, !.n = IF ok THEN n ELSE 0, !.um = 0,
                                      !.kept = IF ok /\ kind = "xmi" THEN ClampAll(@, n) ELSE @]
SessLoadUndefined(S, m) == [S EXCEPT !.kind = "undefined", !.ok = FALSE, !.n = 0, !.um = m, !.kept = IF m >= 1 THEN @ \cup ClampAll(@, m) ELSE @]
\* opn2_getSongsCount: the sequences of the loaded XMI file; "1 or less" = a file with one song (or no file)
SessCountOK(S, c) == IF SessXmi(S) THEN c = S.n ELSE c \in {0, 1}
\* the songs (0-based) a play of the loaded file may deliver
SessSongs(S) == IF SessXmi(S) THEN ClampAll(S.kept \cup {S.req}, S.n) ELSE {0}

\* ---- byte layout (IFF: big-endian chunk lengths, chunks padded to even length) ----
BE32(v) == <<v \div 16777216, (v \div 65536) % 256, (v \div 256) % 256, v % 256>>
XLE16(v) == <<v % 256, v \div 256>>
XTag(s) == CASE s = "FORM" -> <<70, 79, 82, 77>> [] s = "XDIR" -> <<88, 68, 73, 82>> [] s = "INFO" -> <<73, 78, 70, 79>>
            [] s = "CAT " -> <<67, 65, 84, 32>> [] s = "XMID" -> <<88, 77, 73, 68>> [] s = "TIMB" -> <<84, 73, 77, 66>>
            [] OTHER -> <<69, 86, 78, 84>>     \* "EVNT"
Chunk(t, body) == XTag(t) \o BE32(Len(body)) \o body \o (IF Len(body) % 2 = 1 THEN <<0>> ELSE <<>>)
\* interval: a run of bytes < 128 whose sum is the interval
RECURSIVE XDelay(_)
XDelay(dt) == IF dt > 127 THEN <<127>> \o XDelay(dt - 127) ELSE IF dt > 0 THEN <<dt>> ELSE <<>>
RECURSIVE VlqHi(_)
VlqHi(w) == IF w = 0 THEN <<>> ELSE VlqHi(w \div 128) \o <<(w % 128) + 128>>
Vlq(v) == VlqHi(v \div 128) \o <<v % 128>>
XEvBytes(e) ==
  CASE e.k = "on"   -> <<144 + e.ch, e.n, e.v>> \o Vlq(e.dur)
    [] e.k = "nat"  -> <<160 + e.ch, e.n, e.v>>
    [] e.k = "cc"   -> <<176 + e.ch, e.n, e.v>>
    [] e.k = "pc"   -> <<192 + e.ch, e.p>>
    [] e.k = "cat"  -> <<208 + e.ch, e.v>>
    [] e.k = "bend" -> <<224 + e.ch, e.v % 128, e.v \div 128>>
    [] e.k = "tempo" -> <<255, 81, 3, e.us \div 65536, (e.us \div 256) % 256, e.us % 256>>
    [] OTHER -> <<>>
EvntBytes(sg) == FlattenSeq([i \in DOMAIN sg.ev |-> XDelay(sg.ev[i][1]) \o XEvBytes(sg.ev[i][2])]) \o XDelay(sg.eot) \o <<255, 47, 0>>
SongForm(sg) ==
  Chunk("FORM", XTag("XMID") \o
    (IF "timb" \in DOMAIN sg THEN Chunk("TIMB", XLE16(Len(sg.timb)) \o FlattenSeq([i \in DOMAIN sg.timb |-> <<sg.timb[i][1], sg.timb[i][2]>>])) ELSE <<>>) \o
    Chunk("EVNT", EvntBytes(sg)))
XmiBytes(f) ==
  Chunk("FORM", XTag("XDIR") \o Chunk("INFO", XLE16(Len(f.songs)))) \o
  Chunk("CAT ", XTag("XMID") \o FlattenSeq([s \in DOMAIN f.songs |-> SongForm(f.songs[s])]))

\* decoder of an EVNT body (the format read in the other direction): << <<dt, e>>, ... >> and the final interval
RECURSIVE DecDt(_, _, _)
DecDt(b, p, acc) == IF b[p] < 128 THEN DecDt(b, p + 1, acc + b[p]) ELSE <<acc, p>>
RECURSIVE DecVlq(_, _, _)
DecVlq(b, p, acc) == IF b[p] >= 128 THEN DecVlq(b, p + 1, acc * 128 + (b[p] - 128)) ELSE <<acc * 128 + b[p], p + 1>>
RECURSIVE DecEvnt(_, _, _)
DecEvnt(b, p, acc) ==
  LET d == DecDt(b, p, 0)  q == d[2]  st == b[q]  hi == st \div 16  ch == st % 16 IN
  IF st = 255 /\ b[q + 1] = 47 THEN [ev |-> acc, eot |-> d[1]]
  ELSE LET r == CASE hi = 9  -> LET du == DecVlq(b, q + 3, 0) IN <<[k |-> "on", ch |-> ch, n |-> b[q + 1], v |-> b[q + 2], dur |-> du[1]], du[2]>>
                  [] hi = 10 -> <<[k |-> "nat", ch |-> ch, n |-> b[q + 1], v |-> b[q + 2]], q + 3>>
                  [] hi = 11 -> <<[k |-> "cc", ch |-> ch, n |-> b[q + 1], v |-> b[q + 2]], q + 3>>
                  [] hi = 12 -> <<[k |-> "pc", ch |-> ch, p |-> b[q + 1]], q + 2>>
                  [] hi = 13 -> <<[k |-> "cat", ch |-> ch, v |-> b[q + 1]], q + 2>>
                  [] hi = 14 -> <<[k |-> "bend", ch |-> ch, v |-> b[q + 1] + 128 * b[q + 2]], q + 3>>
                  [] OTHER   -> <<[k |-> "tempo", us |-> b[q + 3] * 65536 + b[q + 4] * 256 + b[q + 5]], q + 6>>
       IN DecEvnt(b, r[2], Append(acc, <<d[1], r[1]>>))
=============================================================================
