------------------------------- MODULE Pitch -------------------------------
(* C10: programmed pitch = key + bend * range + instrument offset (in tune).

   (1) REFERENCE.  A pitch P is an integer in units of 2^-20 semitone (U units per semitone; this
       is exactly the resolution of bend * range: bend in -8192..8191, range = msb*128 + lsb in
       1/128 semitone, so bend * range / (128*8192) semitones = bend * range units).
       The frequency of P is 440 * 2^((P/U - 69)/12) Hz; on a chip with master clock `clock` the
       register value denoting f Hz is  F-number * 2^block = f * 2^21 * 144 / clock.
       TLC has no reals.  Ref256 computes that value in fixed point:
           F-number * 2^block = 2^((P + K[fam]) / (12 U))          K = 12 U log2(440 * 2^21 * 144 / clock) - 69 U
       (K rounded to a unit: relative error < 3*10^-8), the power of two from the 769-entry table
       Tab[i] = round(2^(i/768) * 2^20) with linear interpolation (one table step = 16384 units):
       rounding of the entries < 4.8*10^-7 relative, interpolation < 1.1*10^-7 relative, final
       floor < 1/256 step.  At F-number <= 2047 the reference is therefore exact to
       2047 * 6.2*10^-7 * 256 + 1 < 1.4 units of 1/256 F-number step; Eps = 2 covers it.
       The table is regenerated with exact integer arithmetic by lib/gen_pitch.py (table()) and the
       check compares it with the text below; ASSUME TabOK checks end points, strict monotonicity
       and convexity, ASSUME AnchorOK the A4 values for both clocks.

   (2) PROPERTY PREDICATES (used by PitchMC on the model and by PitchTrace on recorded writes):
       Within   |F-number written - reference| <= 1 step at the block written, for every pitch in
                the chip's native range (reference below 2036.75 * 2^7, i.e. 6.62 kHz on the OPN2
                clock; the code switches to operator-multiplier scaling there).  A guard band of
                one F-number step around that limit is left unjudged.
       MonoOK   a higher pitch never gets a lower F-number * 2^block.
       (the re-pitch rule - a pitch bend re-pitches every key-down note of its channel in the same
        call - is stated over note sets in PitchMC / PitchTrace.)

   (3) MODEL of OPN2::noteOn (src/opnmidi_opn2.cpp) on the exact reference value: the cap of `hertz` at
       131071 (tone 204), the octave loop
       (`while(hertz >= 1023.75 && octave < 0x3800)`), the multiplier-offset loop
       (`while(hertz >= 2036.75)`), rounding `hertz + 0.5`, and the multiplier clamp quirk
       (the first operator whose multiplier would exceed 15 is clamped and clears the offset for
       the operators after it).  PitchMC checks (2) on (3); PitchTrace reports recorded writes
       that differ from (3) as drift (refinement), never as property failures. *)
EXTENDS Common, TLC

U      == 1048576            \* pitch units per semitone (2^20 = 128 * 8192)
OctU   == 12 * U             \* units per octave
TabN   == 768                \* table steps per octave
TabStep == 16384             \* OctU \div TabN
Pow2(n) == 2 ^ n

\* chip families (opn2_setChipType): 0 = OPN2 (YM2612, 7670454 Hz), 1 = OPNA (YM2608, 7987200 Hz)
KFam(fam) == IF fam = 1 THEN 104086179 ELSE 104820743

Tab == <<
  1048576, 1049523, 1050470, 1051419, 1052368, 1053319, 1054270, 1055222, 1056174, 1057128, 1058083, 1059038,
  1059994, 1060951, 1061909, 1062868, 1063828, 1064788, 1065750, 1066712, 1067675, 1068639, 1069604, 1070570,
  1071537, 1072504, 1073473, 1074442, 1075412, 1076383, 1077355, 1078328, 1079302, 1080276, 1081252, 1082228,
  1083205, 1084183, 1085162, 1086142, 1087123, 1088104, 1089087, 1090070, 1091054, 1092040, 1093026, 1094013,
  1095000, 1095989, 1096979, 1097969, 1098961, 1099953, 1100946, 1101940, 1102935, 1103931, 1104928, 1105926,
  1106924, 1107924, 1108924, 1109925, 1110928, 1111931, 1112935, 1113940, 1114945, 1115952, 1116960, 1117968,
  1118978, 1119988, 1120999, 1122012, 1123025, 1124039, 1125054, 1126070, 1127086, 1128104, 1129123, 1130142,
  1131163, 1132184, 1133206, 1134230, 1135254, 1136279, 1137305, 1138332, 1139360, 1140388, 1141418, 1142449,
  1143480, 1144513, 1145546, 1146581, 1147616, 1148652, 1149689, 1150727, 1151766, 1152806, 1153847, 1154889,
  1155932, 1156976, 1158020, 1159066, 1160113, 1161160, 1162209, 1163258, 1164308, 1165360, 1166412, 1167465,
  1168519, 1169574, 1170630, 1171687, 1172745, 1173804, 1174864, 1175925, 1176987, 1178050, 1179113, 1180178,
  1181244, 1182310, 1183378, 1184446, 1185516, 1186586, 1187658, 1188730, 1189803, 1190878, 1191953, 1193029,
  1194106, 1195185, 1196264, 1197344, 1198425, 1199507, 1200590, 1201674, 1202759, 1203845, 1204932, 1206020,
  1207109, 1208199, 1209290, 1210382, 1211475, 1212569, 1213664, 1214760, 1215857, 1216954, 1218053, 1219153,
  1220254, 1221356, 1222459, 1223562, 1224667, 1225773, 1226880, 1227988, 1229096, 1230206, 1231317, 1232429,
  1233542, 1234655, 1235770, 1236886, 1238003, 1239121, 1240240, 1241360, 1242480, 1243602, 1244725, 1245849,
  1246974, 1248100, 1249227, 1250355, 1251484, 1252614, 1253745, 1254877, 1256010, 1257144, 1258279, 1259416,
  1260553, 1261691, 1262830, 1263970, 1265112, 1266254, 1267397, 1268542, 1269687, 1270834, 1271981, 1273130,
  1274279, 1275430, 1276581, 1277734, 1278888, 1280043, 1281198, 1282355, 1283513, 1284672, 1285832, 1286993,
  1288155, 1289318, 1290483, 1291648, 1292814, 1293981, 1295150, 1296319, 1297490, 1298661, 1299834, 1301008,
  1302182, 1303358, 1304535, 1305713, 1306892, 1308072, 1309253, 1310435, 1311618, 1312803, 1313988, 1315175,
  1316362, 1317551, 1318740, 1319931, 1321123, 1322316, 1323510, 1324705, 1325901, 1327098, 1328297, 1329496,
  1330696, 1331898, 1333101, 1334304, 1335509, 1336715, 1337922, 1339130, 1340339, 1341549, 1342761, 1343973,
  1345187, 1346401, 1347617, 1348834, 1350052, 1351271, 1352491, 1353712, 1354934, 1356158, 1357382, 1358608,
  1359835, 1361063, 1362292, 1363522, 1364753, 1365985, 1367219, 1368453, 1369689, 1370926, 1372163, 1373402,
  1374642, 1375884, 1377126, 1378369, 1379614, 1380860, 1382107, 1383355, 1384604, 1385854, 1387105, 1388358,
  1389611, 1390866, 1392122, 1393379, 1394637, 1395896, 1397157, 1398418, 1399681, 1400945, 1402210, 1403476,
  1404743, 1406012, 1407281, 1408552, 1409824, 1411097, 1412371, 1413646, 1414923, 1416200, 1417479, 1418759,
  1420040, 1421322, 1422605, 1423890, 1425176, 1426463, 1427751, 1429040, 1430330, 1431622, 1432914, 1434208,
  1435503, 1436799, 1438097, 1439395, 1440695, 1441996, 1443298, 1444601, 1445905, 1447211, 1448518, 1449826,
  1451135, 1452445, 1453756, 1455069, 1456383, 1457698, 1459014, 1460332, 1461650, 1462970, 1464291, 1465613,
  1466937, 1468261, 1469587, 1470914, 1472242, 1473571, 1474902, 1476234, 1477567, 1478901, 1480236, 1481573,
  1482910, 1484249, 1485590, 1486931, 1488274, 1489617, 1490962, 1492309, 1493656, 1495005, 1496355, 1497706,
  1499058, 1500412, 1501767, 1503123, 1504480, 1505838, 1507198, 1508559, 1509921, 1511284, 1512649, 1514015,
  1515382, 1516750, 1518120, 1519491, 1520863, 1522236, 1523610, 1524986, 1526363, 1527741, 1529121, 1530501,
  1531883, 1533267, 1534651, 1536037, 1537424, 1538812, 1540201, 1541592, 1542984, 1544377, 1545772, 1547167,
  1548564, 1549963, 1551362, 1552763, 1554165, 1555568, 1556973, 1558379, 1559786, 1561194, 1562604, 1564015,
  1565427, 1566841, 1568255, 1569672, 1571089, 1572507, 1573927, 1575348, 1576771, 1578195, 1579620, 1581046,
  1582474, 1583902, 1585333, 1586764, 1588197, 1589631, 1591066, 1592503, 1593941, 1595380, 1596821, 1598262,
  1599706, 1601150, 1602596, 1604043, 1605491, 1606941, 1608392, 1609844, 1611298, 1612753, 1614209, 1615666,
  1617125, 1618585, 1620047, 1621510, 1622974, 1624439, 1625906, 1627374, 1628844, 1630314, 1631786, 1633260,
  1634735, 1636211, 1637688, 1639167, 1640647, 1642128, 1643611, 1645095, 1646581, 1648067, 1649555, 1651045,
  1652536, 1654028, 1655521, 1657016, 1658512, 1660010, 1661509, 1663009, 1664511, 1666014, 1667518, 1669024,
  1670531, 1672039, 1673549, 1675060, 1676572, 1678086, 1679601, 1681118, 1682636, 1684155, 1685676, 1687198,
  1688722, 1690246, 1691773, 1693300, 1694829, 1696359, 1697891, 1699424, 1700959, 1702495, 1704032, 1705570,
  1707110, 1708652, 1710195, 1711739, 1713285, 1714832, 1716380, 1717930, 1719481, 1721034, 1722587, 1724143,
  1725700, 1727258, 1728818, 1730379, 1731941, 1733505, 1735070, 1736637, 1738205, 1739774, 1741345, 1742918,
  1744491, 1746067, 1747643, 1749221, 1750801, 1752381, 1753964, 1755547, 1757133, 1758719, 1760307, 1761897,
  1763488, 1765080, 1766674, 1768269, 1769866, 1771464, 1773063, 1774664, 1776267, 1777870, 1779476, 1781083,
  1782691, 1784300, 1785912, 1787524, 1789138, 1790754, 1792371, 1793989, 1795609, 1797230, 1798853, 1800477,
  1802103, 1803730, 1805359, 1806989, 1808621, 1810254, 1811888, 1813524, 1815162, 1816801, 1818441, 1820083,
  1821727, 1823371, 1825018, 1826666, 1828315, 1829966, 1831618, 1833272, 1834928, 1836584, 1838243, 1839903,
  1841564, 1843227, 1844891, 1846557, 1848224, 1849893, 1851563, 1853235, 1854909, 1856583, 1858260, 1859938,
  1861617, 1863298, 1864981, 1866665, 1868350, 1870037, 1871726, 1873416, 1875107, 1876800, 1878495, 1880191,
  1881889, 1883588, 1885289, 1886991, 1888695, 1890400, 1892107, 1893816, 1895526, 1897237, 1898950, 1900665,
  1902381, 1904099, 1905818, 1907539, 1909262, 1910986, 1912711, 1914438, 1916167, 1917897, 1919629, 1921362,
  1923097, 1924833, 1926571, 1928311, 1930052, 1931795, 1933539, 1935285, 1937032, 1938781, 1940532, 1942284,
  1944038, 1945793, 1947550, 1949309, 1951069, 1952831, 1954594, 1956359, 1958125, 1959893, 1961663, 1963434,
  1965207, 1966982, 1968758, 1970535, 1972315, 1974096, 1975878, 1977662, 1979448, 1981235, 1983024, 1984815,
  1986607, 1988401, 1990196, 1991993, 1993792, 1995592, 1997394, 1999198, 2001003, 2002809, 2004618, 2006428,
  2008240, 2010053, 2011868, 2013685, 2015503, 2017323, 2019144, 2020967, 2022792, 2024619, 2026447, 2028277,
  2030108, 2031941, 2033776, 2035612, 2037450, 2039290, 2041131, 2042974, 2044819, 2046665, 2048513, 2050363,
  2052214, 2054067, 2055922, 2057778, 2059637, 2061496, 2063358, 2065221, 2067086, 2068952, 2070820, 2072690,
  2074562, 2076435, 2078310, 2080186, 2082065, 2083944, 2085826, 2087710, 2089595, 2091481, 2093370, 2095260,
  2097152
>>

TabOK == /\ Len(Tab) = TabN + 1 /\ Tab[1] = Pow2(20) /\ Tab[TabN + 1] = Pow2(21)
         /\ \A i \in 1..TabN : Tab[i] < Tab[i + 1]
         /\ \A i \in 1..(TabN - 1) : Tab[i + 2] - Tab[i + 1] >= Tab[i + 1] - Tab[i]
         \* 2^(1/2) and 2^(7/12) (the fifth) to 7 digits
         /\ Tab[385] = 1482910 /\ Tab[449] = 1571089
ASSUME TabOK

\* mantissa 2^(r / OctU) * 2^20 for r in 0..OctU-1
Interp(r) == LET i == r \div TabStep
                 fr == r % TabStep
             IN Tab[i + 1] + ((Tab[i + 2] - Tab[i + 1]) * fr) \div TabStep

Huge256 == Pow2(30)
(* reference F-number for pitch P at block b, in 1/256 F-number steps (capped at 2^30).
   Needs |P + K| < 2^31 (see InDomain); pitches below the table origin give floor division, i.e. sh < 0. *)
\* <<mantissa, octave>> of pitch P: F-number * 2^block = mantissa * 2^(octave - 20)
MantOct(P, fam) == LET Q == P + KFam(fam) IN <<Interp(Q % OctU), Q \div OctU>>
RefAt(mo, b) ==
  LET sh == mo[2] - b - 12
  IN IF sh > 9 THEN Huge256
     ELSE IF sh >= 0 THEN mo[1] * Pow2(sh)
     ELSE IF sh < -30 THEN 0
     ELSE mo[1] \div Pow2(-sh)
Ref256(P, b, fam) == RefAt(MantOct(P, fam), b)

\* A4 = 440 Hz: 440 * 2^21 / (clock / 144) = 17323.04 (OPN2, clock/144 = 53267.04) and 16636.06 (OPNA, 55466.67)
AnchorOK == /\ Abs(Ref256(69 * U, 0, 0) - 4434697) <= 6          \* relative 1.4 * 10^-6
            /\ Abs(Ref256(69 * U, 0, 1) - 4258832) <= 6
            /\ Abs(Ref256(69 * U, 5, 0) - 138584) <= 1            \* the A4 write itself: block 5, F-number 541.34
            /\ Abs(Ref256(69 * U, 5, 1) - 133088) <= 1            \* OPNA: block 5, F-number 519.88
            /\ Abs(Ref256(69 * U, 0, 0) \div 256 - (440 * 2097152) \div 53267) <= 1
            /\ Abs(Ref256(69 * U, 0, 1) \div 256 - (440 * 2097152) \div 55467) <= 1
            /\ Ref256(81 * U, 1, 0) = Ref256(69 * U, 0, 0)
ASSUME AnchorOK

\* ------------------------------------------------------------------ pitch of a MIDI note
Cent(msb, lsb) == msb * 128 + lsb                       \* bend range in 1/128 semitone (RPN 0: CC6 = msb, CC38 = lsb)
DrumTone(key, drum) == IF drum = 0 THEN key ELSE IF drum >= 128 THEN drum - 128 ELSE drum
\* tone in semitones (key or drum key, or the gliding position) given in units; noff = instrument note offset
PitchOf(toneU, noff, bend, msb, lsb) == toneU + noff * U + bend * Cent(msb, lsb)
\* 32-bit arithmetic: the offset is bounded first (TLC evaluates conjunctions left to right), then the sum
InDomain(toneU, noff) == /\ noff >= -1500 /\ noff <= 1500 /\ toneU >= -200 * U /\ toneU <= 200 * U
                         /\ toneU + noff * U >= -90 * U /\ toneU + noff * U <= 1500 * U

\* ------------------------------------------------------------------ property predicates
Eps == 2
Lim1 == 262080          \* 1023.75 * 256: octave loop threshold
Lim2 == 521408          \* 2036.75 * 256: multiplier loop threshold = end of the native range at block 7
Native(P, fam)   == Ref256(P, 7, fam) < Lim2 - 256
Extended(P, fam) == Ref256(P, 7, fam) >= Lim2 + 256
Dev256(w, b, P, fam) == Abs(w * 256 - Ref256(P, b, fam))
Within(w, b, P, fam) == Dev256(w, b, P, fam) <= 256 + Eps
\* the pitch is only known to lie in Plo..Phi (glide between its end points)
WithinRange(w, b, Plo, Phi, fam) == /\ w * 256 >= Ref256(Plo, b, fam) - 256 - Eps
                                    /\ w * 256 <= Ref256(Phi, b, fam) + 256 + Eps
Val(w, b) == w * Pow2(b)
MonoOK(p1, v1, p2, v2) == (p1 <= p2 => v1 <= v2) /\ (p1 >= p2 => v1 >= v2)

\* ------------------------------------------------------------------ model of OPN2::noteOn
\* `hertz` after t halvings is RefAt(mo, t) (the reference at "block" t, also beyond 7)
RECURSIVE OctLoop(_, _)
OctLoop(mo, oct) == IF oct < 7 /\ RefAt(mo, oct) >= Lim1 THEN OctLoop(mo, oct + 1) ELSE oct
RECURSIVE MulLoop(_, _)
MulLoop(mo, t) == IF RefAt(mo, t) >= Lim2 THEN MulLoop(mo, t + 1) ELSE t
\* multipliers written for instrument multipliers muls (4-tuple) and offset mo, operator by operator
RECURSIVE MulOut(_, _, _)
MulOut(muls, mo, i) ==
  IF i > Len(muls) THEN <<>>
  ELSE IF mo > 0 THEN (IF muls[i] + mo > 15 THEN <<15>> \o MulOut(muls, 0, i + 1) ELSE <<muls[i] + mo>> \o MulOut(muls, mo, i + 1))
  ELSE <<muls[i]>> \o MulOut(muls, mo, i + 1)
PackMul(m) == m[1] + 16 * m[2] + 256 * m[3] + 4096 * m[4]
ModelFromMO(mo, muls) ==
  LET oct == OctLoop(mo, 0)
      t == MulLoop(mo, oct)            \* total number of halvings
  IN [b |-> oct, w |-> (RefAt(mo, t) + 128) \div 256, mo |-> t - oct, mm |-> PackMul(MulOut(muls, t - oct, 1))]
(* `if(!(hertz <= 131071.0)) hertz = 131071.0;` before the chip coefficient is applied (the repair of F10):
   exp(0.057762265 * tone) = 131071 at tone = 12 log2(131071) = 204 semitones - 138.5 units. *)
HertzCap == 204 * U - 139
ModelNoteOn(P, fam, muls) == ModelFromMO(MantOct(Min(P, HertzCap), fam), muls)
\* a recorded write agrees with the model at P or within Delta units of P (thresholds decided in floating point)
Delta == 256       \* 2.4 * 10^-4 semitone = 1.4 * 10^-5 relative (the OPNA coefficient of the code is 1.1 * 10^-5 off)
Agrees(m, w, b, mm) == m.b = b /\ Abs(m.w - w) <= 1 /\ m.mm = mm
\* mo = MantOct(P, fam), computed once by the caller
ModelAgreesMO(w, b, mm, mo, P, fam, muls) ==
  \/ P <= HertzCap /\ Agrees(ModelFromMO(mo, muls), w, b, mm)
  \/ Agrees(ModelNoteOn(P, fam, muls), w, b, mm)
  \/ Agrees(ModelNoteOn(P - Delta, fam, muls), w, b, mm)
  \/ Agrees(ModelNoteOn(P + Delta, fam, muls), w, b, mm)
ModelAgrees(w, b, mm, P, fam, muls) ==
  \/ Agrees(ModelNoteOn(P, fam, muls), w, b, mm)
  \/ Agrees(ModelNoteOn(P - Delta, fam, muls), w, b, mm)
  \/ Agrees(ModelNoteOn(P + Delta, fam, muls), w, b, mm)
=============================================================================
