------------------------------- MODULE Xmi2Mid -------------------------------
(* Implementation-shaped model of the AIL XMI -> SMF converter (src/cvt_xmi2mid.hpp) as the library calls it:
   Convert_xmi2midi_multi(in, insize, out, XMIDI_CONVERT_NOCONVERSION) with the file image followed by 20 zero bytes
   (parseXMI allocates mus_len + 20 and passes that size).  One operator per C function:
     X2ParseXMI            FORM/XDIR/INFO walk, track count, CAT /XMID, datastart
     X2ExtractTracks       chunk walk (FORM XMID skipped, TIMB and other chunks skipped, EVNT converted), type 2 / 0
     X2ConvertFiletoList   the event loop: interval (sum of bytes < 0x80) * 3, status dispatch, End, first tempo kept and
                           tripled for the division, later tempo metas dropped, return (tempo * 3) / 25000
     X2ConvertEvent        controller 114 -> 32 (channels other than 9), bank select hack (value 127 -> 0), note-on with its
                           duration: a second 9x event with velocity 0 inserted at time + duration * 3
     X2ConvertSystemMessage  meta / SysEx copied
     X2CreateNewEvent      the time-sorted singly linked list with its `current` cursor (index cur)
     X2ConvertListToMTrk   delta times, running status, stop after FF 2F, track length
   Controllers are plain data to the converter: 116/117 (FOR/NEXT), 110..120 in general, pass through unchanged except the
   two hacks above; their interpretation is the sequencer's.
   Scope: WELL-FORMED input (every read inside the buffer, chunk lengths < 2^31); anything else yields
   [ok |-> FALSE, unmodelled |-> TRUE] (the malformed-input arithmetic is the subject of Loader.tla).
   Left out: RBRN branch tables (":XBRN:" markers), the MT-32 conversion types (the library never selects them),
   output buffer growth, 32-bit wrap-around of times.
   Output: [ok |-> FALSE] or [ok |-> TRUE, songs |-> << [fmt, ntr, div, tempo, tracks |-> << [len, ev, rs] >>], ... >>]
   with ev = << <<delta, status, data...>> >> (meta: <<delta, 255, type, data...>>; SysEx: <<delta, status, data...>>),
   rs[i] = 1 when the status byte of event i is omitted (running status), tempo = data of the first FF 51.        *)
EXTENDS Common

\* ---- constants of the converter (the binding demonstration mutates these) ----
X2TickFactor   == 3          \* time += data * 3 ; note-off at time + delta * 3
X2DefaultTempo == 500000
X2DivNumer     == 3          \* return (tempo * 3) / 25000 (after tempo *= 3 when a tempo meta was seen)
X2DivDenom     == 25000
X2Bank127To    == 0          \* data == 127 ? 0 : data
X2Ctl114To     == 32
X2PadBytes     == 20

X2At(b, p) == b[p + 1]
X2Tag(b, p) == SubSeq(b, p + 1, p + 4)
X2Be32(b, p) == X2At(b, p) * 16777216 + X2At(b, p + 1) * 65536 + X2At(b, p + 2) * 256 + X2At(b, p + 3)      \* xmi2mid_read4
X2Le16(b, p) == X2At(b, p) + 256 * X2At(b, p + 1)                                                        \* xmi2mid_read2
X2Even(n) == ((n + 1) \div 2) * 2                                                                        \* (len + 1) & ~1
X2FORM == <<70, 79, 82, 77>>  X2XDIR == <<88, 68, 73, 82>>  X2XMID == <<88, 77, 73, 68>>  X2INFO == <<73, 78, 70, 79>>
X2CAT == <<67, 65, 84, 32>>   X2EVNT == <<69, 86, 78, 84>>  X2RBRN == <<82, 66, 82, 78>>
X2Unmodelled == [ok |-> FALSE, unmodelled |-> TRUE]
\* xmi2mid_read*/copy assert(ptr + n < end): the model requires the same of a well-formed input
X2Can(b, p, n) == p >= 0 /\ p + n < Len(b)
X2CanLen(b, p) == X2Can(b, p, 4) /\ X2At(b, p) < 128

---------------------------------------------------------------------------
(* xmi2mid_ParseXMI: [st |-> "ok", tracks, datastart] | [st |-> "bad"] | [st |-> "unmodelled"] *)
RECURSIVE X2InfoLoop(_, _, _, _)
\* for (i = 4; i < len; i++) { ... }  returns <<tracks, st>>
X2InfoLoop(b, len, i, pos) ==
  IF i >= len \/ pos + 10 > Len(b) THEN <<0, "ok">>
  ELSE IF ~X2CanLen(b, pos + 4) THEN <<0, "unmodelled">>
  ELSE LET tag == X2Tag(b, pos)  cl == X2Be32(b, pos + 4) IN
       IF tag # X2INFO THEN X2InfoLoop(b, len, i + 8 + X2Even(cl) + 1, pos + 8 + X2Even(cl))
       ELSE IF cl < 2 THEN <<0, "ok">>
       ELSE IF ~X2Can(b, pos + 8, 2) THEN <<0, "unmodelled">> ELSE <<X2Le16(b, pos + 8), "ok">>
X2ParseXMI(b) ==
  LET size == Len(b) IN
  IF 8 > size THEN [st |-> "bad"]
  ELSE IF X2Tag(b, 0) # X2FORM THEN [st |-> "bad"]
  ELSE IF ~X2CanLen(b, 4) THEN [st |-> "unmodelled"]
  ELSE LET len == X2Be32(b, 4)  start == 8 IN
       IF start + 4 > size THEN [st |-> "bad"]
       ELSE IF X2Tag(b, 8) = X2XMID THEN [st |-> "bad"]          \* XDIR-less file: tracks = 1, then falls out to return -1
       ELSE IF X2Tag(b, 8) # X2XDIR THEN [st |-> "bad"]
       ELSE LET r == X2InfoLoop(b, len, 4, 12)  p2 == start + X2Even(len) IN
            IF r[2] # "ok" THEN [st |-> "unmodelled"]
            ELSE IF r[1] = 0 THEN [st |-> "bad"]
            ELSE IF p2 + 12 > size THEN [st |-> "bad"]
            ELSE IF X2Tag(b, p2) # X2CAT THEN [st |-> "bad"]
            ELSE IF X2Tag(b, p2 + 8) # X2XMID THEN [st |-> "bad"]
            ELSE [st |-> "ok", tracks |-> r[1], datastart |-> p2 + 12]

---------------------------------------------------------------------------
(* the event list: << [time, status, d0, d1, buf] >>, cur = index of ctx->current (0 = empty list) *)
X2Node(time, status, d0, d1, buf) == [time |-> time, status |-> status, d0 |-> d0, d1 |-> d1, buf |-> buf]
\* position after which the new node goes: walk from c while a successor exists whose time is not greater
RECURSIVE X2Walk(_, _, _)
X2Walk(list, c, time) == IF c < Len(list) /\ list[c + 1].time <= time THEN X2Walk(list, c + 1, time) ELSE c
\* xmi2mid_CreateNewEvent followed by the assignments of the caller: returns [list, cur]
X2CreateNewEvent(L, time, status, d0, d1, buf) ==
  IF L.list = <<>> THEN [list |-> << X2Node(IF time < 0 THEN 0 ELSE time, status, d0, d1, buf) >>, cur |-> 1]
  ELSE IF time < 0 THEN [list |-> << X2Node(0, status, d0, d1, buf) >> \o L.list, cur |-> 1]
  ELSE LET c0 == IF L.list[L.cur].time > time THEN 1 ELSE L.cur
           c == X2Walk(L.list, c0, time)
       IN [list |-> SubSeq(L.list, 1, c) \o << X2Node(time, status, d0, d1, buf) >> \o SubSeq(L.list, c + 1, Len(L.list)), cur |-> c + 1]

\* xmi2mid_GetVLQ2: sum of the bytes below 0x80; <<sum, pos>>
RECURSIVE X2GetVLQ2(_, _, _)
X2GetVLQ2(b, pos, acc) == IF pos # Len(b) /\ X2At(b, pos) < 128 THEN X2GetVLQ2(b, pos + 1, acc + X2At(b, pos)) ELSE <<acc, pos>>
\* xmi2mid_GetVLQ: at most 4 bytes; <<value, pos>>
RECURSIVE X2GetVLQ(_, _, _, _)
X2GetVLQ(b, pos, i, acc) ==
  IF i >= 4 \/ pos + 1 >= Len(b) THEN <<acc, pos>>
  ELSE LET d == X2At(b, pos)  v == (acc * 128) + (d % 128) IN IF d < 128 THEN <<v, pos + 1>> ELSE X2GetVLQ(b, pos + 1, i + 1, v)

\* xmi2mid_ConvertEvent(ctx, time, status, size): returns [L, pos]
X2ConvertEvent(b, L, pos, time, status, size) ==
  LET hi == status \div 16  ch == status % 16
      raw == X2At(b, pos)
      data == IF hi = 11 /\ ch # 9 /\ raw = 114 THEN X2Ctl114To ELSE raw                   \* HACK: controller 114 -> XG bank
  IN IF hi = 11 /\ data = 0
     THEN LET v == X2At(b, pos + 1) IN                                                       \* bank change; NOCONVERSION: always an event
          [L |-> X2CreateNewEvent(L, time, status, 0, IF v = 127 THEN X2Bank127To ELSE v, <<>>), pos |-> pos + 2]
     ELSE IF size = 1 THEN [L |-> X2CreateNewEvent(L, time, status, data, 0, <<>>), pos |-> pos + 1]
     ELSE LET d1 == X2At(b, pos + 1)
              L1 == X2CreateNewEvent(L, time, status, data, d1, <<>>)
          IN IF size = 2 THEN [L |-> L1, pos |-> pos + 2]
             ELSE LET q == X2GetVLQ(b, pos + 2, 0, 0)                                        \* XMI note on: prev = current
                      L2 == X2CreateNewEvent(L1, time + q[1] * X2TickFactor, status, data, 0, <<>>)
                  IN [L |-> [list |-> L2.list, cur |-> L1.cur], pos |-> q[2]]                \* current = prev (prev stands before the new node)

\* xmi2mid_ConvertSystemMessage(ctx, time, status): returns [L, pos]
X2ConvertSystemMessage(b, L, pos, time, status) ==
  LET meta == status = 255
      d0 == IF meta THEN X2At(b, pos) ELSE 0
      q == X2GetVLQ(b, IF meta THEN pos + 1 ELSE pos, 0, 0)
  IN IF q[2] + q[1] >= Len(b) THEN [L |-> L, pos |-> -1]                  \* xmi2mid_copy would run past the image: not well-formed
     ELSE [L |-> X2CreateNewEvent(L, time, status, d0, 0, SubSeq(b, q[2] + 1, q[2] + q[1])), pos |-> q[2] + q[1]]

\* xmi2mid_ConvertFiletoList: S = [pos, time, tempo, tset, end, L, st]
X2FileStep(b, S) ==
  LET iv == X2GetVLQ2(b, S.pos, 0)
      time == S.time + iv[1] * X2TickFactor
      p == iv[2]
  IN IF ~X2Can(b, p, 8) THEN [S EXCEPT !.st = "unmodelled"]             \* a well-formed EVNT ends with FF 2F 00 inside the image
     ELSE LET status == X2At(b, p)  hi == status \div 16  S1 == [S EXCEPT !.time = time] IN
       CASE hi = 9 -> LET r == X2ConvertEvent(b, S.L, p + 1, time, status, 3) IN [S1 EXCEPT !.L = r.L, !.pos = r.pos]
         [] hi \in {8, 10, 11, 14} -> LET r == X2ConvertEvent(b, S.L, p + 1, time, status, 2) IN [S1 EXCEPT !.L = r.L, !.pos = r.pos]
         [] hi \in {12, 13} -> LET r == X2ConvertEvent(b, S.L, p + 1, time, status, 1) IN [S1 EXCEPT !.L = r.L, !.pos = r.pos]
         [] hi = 15 ->
              IF status = 255 /\ X2At(b, p + 1) = 81 /\ S.tset
              THEN LET q == X2GetVLQ(b, p + 2, 0, 0) IN [S1 EXCEPT !.pos = q[2] + q[1]]                  \* later tempo changes are skipped
              ELSE LET isEnd == status = 255 /\ X2At(b, p + 1) = 47
                       isTempo == status = 255 /\ X2At(b, p + 1) = 81
                       \* skipsrc(1): the length byte is not looked at; tempo = 3 bytes, times 3
                       tempo1 == IF isTempo THEN (X2At(b, p + 3) * 65536 + X2At(b, p + 4) * 256 + X2At(b, p + 5)) * 3 ELSE S.tempo
                       r == X2ConvertSystemMessage(b, S.L, p + 1, time, status)
                   IN IF r.pos < 0 THEN [S EXCEPT !.st = "unmodelled"]
                      ELSE [S1 EXCEPT !.L = r.L, !.pos = r.pos, !.tempo = tempo1, !.tset = S.tset \/ isTempo, !.end = isEnd]
         [] OTHER -> [S1 EXCEPT !.pos = p + 1]
RECURSIVE X2FileLoop(_, _)
X2FileLoop(b, S) == IF S.end \/ S.st # "run" \/ S.pos >= Len(b) THEN S ELSE X2FileLoop(b, X2FileStep(b, S))
X2ConvertFiletoList(b, pos) ==
  LET S == X2FileLoop(b, [pos |-> pos, time |-> 0, tempo |-> X2DefaultTempo, tset |-> FALSE, end |-> FALSE,
                          L |-> [list |-> <<>>, cur |-> 0], st |-> "run"])
  IN [st |-> S.st, list |-> S.L.list, ppqn |-> (S.tempo * X2DivNumer) \div X2DivDenom]

---------------------------------------------------------------------------
(* xmi2mid_PutVLQ / xmi2mid_ConvertListToMTrk: [len, ev, rs] *)
X2VlqLen(v) == IF v < 128 THEN 1 ELSE IF v < 16384 THEN 2 ELSE IF v < 2097152 THEN 3 ELSE 4
RECURSIVE X2ListLoop(_, _, _, _, _)
X2ListLoop(list, i, time, last, acc) ==
  IF i > Len(list) \/ acc.end THEN acc
  ELSE LET e == list[i]
           delta == e.time - time
           wr == e.status # last \/ e.status >= 240
           hi == e.status \div 16
           data == CASE hi \in {8, 9, 10, 11, 14} -> <<e.d0, e.d1>>
                     [] hi \in {12, 13} -> <<e.d0>>
                     [] e.status = 255 -> <<e.d0>> \o e.buf
                     [] hi = 15 -> e.buf
                     [] OTHER -> <<>>
           nb == X2VlqLen(delta) + (IF wr THEN 1 ELSE 0) +
                 (CASE hi \in {8, 9, 10, 11, 14} -> 2 [] hi \in {12, 13} -> 1
                    [] hi = 15 -> (IF e.status = 255 THEN 1 ELSE 0) + X2VlqLen(Len(e.buf)) + Len(e.buf) [] OTHER -> 0)
       IN X2ListLoop(list, i + 1, e.time, e.status,
                     [len |-> acc.len + nb, ev |-> Append(acc.ev, <<delta, e.status>> \o data), rs |-> Append(acc.rs, IF wr THEN 0 ELSE 1),
                      end |-> e.status = 255 /\ e.d0 = 47])
X2ConvertListToMTrk(list) ==
  LET r == X2ListLoop(list, 1, 0, 0, [len |-> 0, ev |-> <<>>, rs |-> <<>>, end |-> FALSE]) IN [len |-> r.len, ev |-> r.ev, rs |-> r.rs]

---------------------------------------------------------------------------
(* xmi2mid_ExtractTracksFromXmi: the chunk walk; acc = converted songs [list, ppqn] *)
RECURSIVE X2ExtractLoop(_, _, _, _)
X2ExtractLoop(b, pos, tracks, acc) ==
  IF pos >= Len(b) \/ Len(acc) = tracks THEN [st |-> "ok", songs |-> acc]
  ELSE IF ~X2CanLen(b, pos + 4) THEN [st |-> "unmodelled", songs |-> acc]
  ELSE LET form == X2Tag(b, pos) = X2FORM
           hp == IF form THEN pos + 12 ELSE pos                  \* FORM: skip its length and the type, read the next chunk header
       IN IF form /\ ~X2CanLen(b, hp + 4) THEN [st |-> "unmodelled", songs |-> acc]
          ELSE LET tag == X2Tag(b, hp)  len == X2Be32(b, hp + 4)  begin == hp + 8 IN
               IF tag = X2RBRN THEN [st |-> "unmodelled", songs |-> acc]
               ELSE IF tag # X2EVNT THEN X2ExtractLoop(b, begin + X2Even(len), tracks, acc)
               ELSE LET r == X2ConvertFiletoList(b, begin) IN
                    IF r.st # "run" THEN [st |-> "unmodelled", songs |-> acc]
                    ELSE IF r.ppqn = 0 THEN [st |-> "ok", songs |-> acc]                      \* break
                    ELSE X2ExtractLoop(b, begin + X2Even(len), tracks, Append(acc, r))

X2FirstTempo(ev) == LET S == { i \in DOMAIN ev : ev[i][2] = 255 /\ ev[i][3] = 81 } IN
                    IF S = {} THEN <<>> ELSE LET i == CHOOSE x \in S : \A y \in S : x <= y IN SubSeq(ev[i], 4, Len(ev[i]))
\* Convert_xmi2midi_multi on the padded image
Xmi2MidImage(b) ==
  LET h == X2ParseXMI(b) IN
  IF h.st = "unmodelled" THEN X2Unmodelled
  ELSE IF h.st # "ok" THEN [ok |-> FALSE]
  ELSE LET x == X2ExtractLoop(b, h.datastart, h.tracks, <<>>)
           ty == IF h.tracks > 1 THEN 2 ELSE 0                                              \* xmi2mid_ExtractTracks(ctx, 0)
       IN IF x.st # "ok" THEN X2Unmodelled
          ELSE IF Len(x.songs) # h.tracks THEN [ok |-> FALSE]
          ELSE [ok |-> TRUE, songs |-> [s \in DOMAIN x.songs |->
                   LET trk == X2ConvertListToMTrk(x.songs[s].list) IN
                   [fmt |-> ty, ntr |-> 1, div |-> x.songs[s].ppqn, tempo |-> X2FirstTempo(trk.ev), tracks |-> << trk >>]] \o <<>>]
\* parseXMI: the file image is followed by 20 zero bytes
Xmi2Mid(file) == Xmi2MidImage(file \o [i \in 1..X2PadBytes |-> 0])
=============================================================================
