------------------------------ MODULE PitchMC ------------------------------
(* Leg (A) of C10: TLC explores three small machines built on spec/Pitch.tla (constant Part).

   Part = 1  PITCH GRID.  A state is one setting [fam, t, r, b]: chip family, tone = key + instrument
             offset = t - TOff semitones (TGrid; configuration files cannot hold negative numbers),
             bend range r = msb * 128 + lsb (Ranges), bend message value b in 0..16383 (BGrid).
             A step moves the tone or the bend to its neighbour in the grid (up or down).
             On every state the F-number/block the MODEL of OPN2::noteOn writes for the pitch is
             judged by Within (native range) and by the field ranges; on every edge by MonoOK.

   Part = 2  SEARCH MACHINE of OPN2::noteOn over magnitude classes of `hertz`, one loop iteration
             per step.  A finite magnitude is [e, hi]: e = number of halvings that bring it below
             1023.75 (so 1023.75 * 2^(e-1) <= hertz < 1023.75 * 2^e for e > 0), hi = it lies in
             the upper sliver [2036.75 * 2^(e-1), 1023.75 * 2^e) (the only part of class e = 1 the
             second loop still halves).  Classes: 0 and every e in 0..EMax, the largest finite
             double (e = 1015) and, when WithInf, +inf (exp() overflow for a note offset of 32767)
             with inf / 2 = inf.  P: every loop iteration changes the magnitude (e is the variant
             function; an iteration that leaves hertz unchanged repeats forever), block <= 7,
             the final F-number fits 11 bits.  InfGuard = TRUE is the guarded machine
             (`if(!(hertz <= 131071.0)) hertz = 131071.0;`: everything above class CapE, +inf
             included, enters the loops as class CapE); InfGuard = FALSE is the machine without
             that line, which never leaves the first loop for +inf.

   Part = 3  RE-PITCH RULE.  One MIDI channel, keys Keys, the sustain and sostenuto pedals and pitch
             bends; users carry the hold set sus of OPNMIDIplay::OpnChannel::LocationData.
             P: a pitch bend writes a frequency for every key-down note.  SostSkip = TRUE is the
             machine as written ("Don't bend a sustained note": users tagged by CC66 are skipped,
             key down or not); SostSkip = FALSE re-pitches every key-down note.
             In simulation mode Emit prints BEHAVIOUR lines (indices into Alphabet) that are
             replayed on the real library. *)
EXTENDS Pitch, Json
CONSTANTS Part, TGrid, BGrid, Ranges, Fams, EMax, WithInf, InfGuard, SostSkip, MaxDepth, EmitDepth
VARIABLES s, bad, hist
vars == <<s, bad, hist>>
View == <<s, bad>>

MinOf(S) == CHOOSE x \in S : \A y \in S : x <= y
MaxOf(S) == CHOOSE x \in S : \A y \in S : x >= y
Neighbour(g, x, d) == LET cand == IF d = 1 THEN { y \in g : y > x } ELSE { y \in g : y < x }
                      IN IF cand = {} THEN -99999 ELSE IF d = 1 THEN MinOf(cand) ELSE MaxOf(cand)

\* ------------------------------------------------------------------ Part 1
Muls1 == <<1, 1, 1, 1>>
TOff == 48
P1(t) == (t.t - TOff) * U + (t.b - 8192) * t.r
W1(t) == ModelNoteOn(P1(t), t.fam, Muls1)
StateBad1(t) ==
  LET p == P1(t)  m == W1(t) IN
  (IF m.b \in 0..7 /\ m.w \in 0..2047 THEN {} ELSE {"field-range"})
  \cup (IF Native(p, t.fam) /\ ~Within(m.w, m.b, p, t.fam) THEN {"pitch"} ELSE {})
  \cup (IF Native(p, t.fam) /\ m.mo # 0 THEN {"native-uses-multiplier"} ELSE {})
  \cup (IF Extended(p, t.fam) /\ m.mo = 0 THEN {"extended-without-multiplier"} ELSE {})
EdgeBad1(t, u) ==
  LET p == P1(t)  q == P1(u)  m == W1(t)  n == W1(u) IN
  IF Native(p, t.fam) /\ Native(q, u.fam) /\ ~MonoOK(p, Val(m.w, m.b), q, Val(n.w, n.b)) THEN {"monotone"} ELSE {}
Init1 == s \in [fam : Fams, t : {MinOf(TGrid)}, r : Ranges, b : {MinOf(BGrid)}]
Next1 == \E mv \in 1..4 :
  LET u == CASE mv = 1 -> [s EXCEPT !.t = Neighbour(TGrid, s.t, 1)]
             [] mv = 2 -> [s EXCEPT !.b = Neighbour(BGrid, s.b, 1)]
             [] mv = 3 -> [s EXCEPT !.t = Neighbour(TGrid, s.t, 2)]
             [] mv = 4 -> [s EXCEPT !.b = Neighbour(BGrid, s.b, 2)]
  IN /\ u.t # -99999 /\ u.b # -99999
     /\ s' = u /\ hist' = Append(hist, mv)
     /\ bad' = bad \cup StateBad1(u) \cup EdgeBad1(s, u)

\* ------------------------------------------------------------------ Part 2
Inf == [k |-> "inf", e |-> 0, hi |-> FALSE]
Fin(e, hi) == [k |-> "fin", e |-> e, hi |-> hi]
Classes == { Fin(e, hi) : e \in 0..EMax, hi \in BOOLEAN } \cup { Fin(1015, TRUE), Fin(1015, FALSE) } \cup (IF WithInf THEN {Inf} ELSE {})
Half(h) == IF h.k = "inf" THEN Inf ELSE IF h.e = 0 THEN h ELSE Fin(h.e - 1, h.hi)
Ge1(h) == h.k = "inf" \/ h.e >= 1                      \* hertz >= 1023.75
Ge2(h) == h.k = "inf" \/ h.e >= 2 \/ (h.e = 1 /\ h.hi)  \* hertz >= 2036.75
MoCap == 2000
CapE == 16              \* 131071 * 321.88557 = 1023.75 * 2^15.33 (OPNA: 2^15.27): 16 halvings, lower part of the class
Init2 == s \in { [pc |-> "l1", h |-> h, oct |-> 0, mo |-> 0] : h \in Classes }
Next2 ==
  /\ hist' = hist
  /\ CASE s.pc = "l1" ->
            IF InfGuard /\ s.oct = 0 /\ (s.h.k = "inf" \/ s.h.e > CapE) THEN s' = [s EXCEPT !.h = Fin(CapE, FALSE)] /\ bad' = bad
            ELSE IF Ge1(s.h) /\ s.oct < 7
            THEN /\ s' = [s EXCEPT !.h = Half(s.h), !.oct = s.oct + 1]
                 /\ bad' = bad \cup (IF Half(s.h) = s.h THEN {"no-variant-octave-loop"} ELSE {})
            ELSE s' = [s EXCEPT !.pc = "l2"] /\ bad' = bad
       [] s.pc = "l2" ->
            IF Ge2(s.h)
            THEN /\ s' = [s EXCEPT !.h = Half(s.h), !.mo = Min(s.mo + 1, MoCap)]
                 /\ bad' = bad \cup (IF Half(s.h) = s.h THEN {"no-variant-multiplier-loop"} ELSE {})
            ELSE /\ s' = [s EXCEPT !.pc = "done"]
                 \* hertz < 2036.75: round(hertz) <= 2037 fits the 11-bit F-number; block = oct <= 7
                 /\ bad' = bad \cup (IF s.oct \in 0..7 /\ ~Ge2(s.h) THEN {} ELSE {"field-range"})
       [] OTHER -> FALSE
\* the multiplier clamp keeps every written multiplier inside its 4-bit field
MulLemma == \A a \in 0..15, b \in 0..15, mo \in {0, 1, 2, 7, 14, 15, 16, 1000} :
              \A i \in 1..4 : MulOut(<<a, b, a, b>>, mo, 1)[i] \in 0..15

\* ------------------------------------------------------------------ Part 3
Keys == {60, 64}
Alphabet == << [o |-> "on", k |-> 60], [o |-> "on", k |-> 64], [o |-> "off", k |-> 60], [o |-> "off", k |-> 64],
               [o |-> "cc", n |-> 64, v |-> 127], [o |-> "cc", n |-> 64, v |-> 0], [o |-> "cc", n |-> 66, v |-> 127], [o |-> "cc", n |-> 66, v |-> 0],
               [o |-> "bend", v |-> 0], [o |-> "bend", v |-> 8192], [o |-> "bend", v |-> 16383] >>
\* per key: down = key held (active note), user = the chip channel still lists it, sus = hold set of the user
Note0 == [down |-> FALSE, user |-> FALSE, sus |-> {}]
Init3 == s = [notes |-> [k \in Keys |-> Note0], ped |-> FALSE, bend |-> 8192, out |-> {}]
Clean(n) == IF n.user /\ ~n.down /\ n.sus = {} THEN Note0 ELSE n
Release(n, ped) == IF ~n.down THEN n
                   ELSE IF ped THEN [n EXCEPT !.down = FALSE, !.sus = @ \cup {"P"}]
                   ELSE IF "S" \in n.sus THEN [n EXCEPT !.down = FALSE]
                   ELSE Note0
Step3(t, a) ==
  CASE a.o = "on" -> [t EXCEPT !.notes[a.k] = [down |-> TRUE, user |-> TRUE, sus |-> {}], !.out = {a.k}]
    [] a.o = "off" -> [t EXCEPT !.notes[a.k] = Release(@, t.ped), !.out = {}]
    [] a.o = "cc" /\ a.n = 64 /\ a.v >= 64 -> [t EXCEPT !.ped = TRUE, !.out = {}]
    [] a.o = "cc" /\ a.n = 64 -> [t EXCEPT !.ped = FALSE, !.out = {}, !.notes = [k \in Keys |-> Clean([t.notes[k] EXCEPT !.sus = @ \ {"P"}])]]
    [] a.o = "cc" /\ a.n = 66 /\ a.v >= 64 -> [t EXCEPT !.out = {}, !.notes = [k \in Keys |-> IF t.notes[k].user /\ t.notes[k].sus = {} THEN [t.notes[k] EXCEPT !.sus = {"S"}] ELSE t.notes[k]]]
    [] a.o = "cc" /\ a.n = 66 -> [t EXCEPT !.out = {}, !.notes = [k \in Keys |-> Clean([t.notes[k] EXCEPT !.sus = @ \ {"S"}])]]
    [] a.o = "bend" -> [t EXCEPT !.bend = a.v, !.out = { k \in Keys : t.notes[k].down /\ (~SostSkip \/ t.notes[k].sus = {}) }]
StepBad3(u, a) ==
  IF a.o = "bend" THEN { IF "S" \in u.notes[k].sus THEN "bend-skips-sostenuto-keydown" ELSE "bend-skips-keydown" : k \in { q \in Keys : u.notes[q].down /\ q \notin u.out } }
  ELSE IF a.o = "on" /\ a.k \notin u.out THEN {"keyon-without-write"} ELSE {}
Next3 == \E i \in DOMAIN Alphabet :
  LET u == Step3(s, Alphabet[i])
  IN s' = u /\ hist' = Append(hist, i) /\ bad' = bad \cup StepBad3(u, Alphabet[i])

\* ------------------------------------------------------------------
Init == /\ hist = <<>>
        /\ CASE Part = 1 -> Init1 /\ bad = StateBad1(s)
             [] Part = 2 -> Init2 /\ bad = (IF MulLemma THEN {} ELSE {"mul-lemma"})
             [] Part = 3 -> Init3 /\ bad = {}
Next == CASE Part = 1 -> Next1 [] Part = 2 -> Next2 [] Part = 3 -> Next3
Spec == Init /\ [][Next]_vars
NoBad == bad = {}
DepthBound == TLCGet("level") < MaxDepth
Emit == (Len(hist) = EmitDepth) => PrintT(<<"BEHAVIOUR", ToJson(hist)>>)
=============================================================================
